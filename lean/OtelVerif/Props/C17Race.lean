import OtelVerif.Lemmas.ObsRegLock
import OtelVerif.Gen.ObsRegLock
/-! # C17, concurrency reading — callbacks added / removed while a collection runs

"At each collection … every callback registered on an observable instrument is invoked exactly once and a removed callback
(or one whose instrument was destroyed) is never invoked again": theorems about `Model/ObsRegLock.lean`, for EVERY
interleaving of the lock / append / erase / loop-test / callback / unlock steps of any number of threads calling
`AddCallback`, `RemoveCallback`, `CleanupCallback` (`~ObservableInstrument`) and `Observe` on one registry (no bound on the
number of threads, calls or steps): one inductive invariant (`Otel.ObsRegLock.Inv`, `reachable_inv`) and from it

* the critical sections never overlap (`mutual_exclusion`); while an `Observe` runs the vector does not change
  (`observe_sees_stable_list`);
* an `Observe` invokes exactly the registered callbacks, in registration order, each as often as it is registered — exactly
  once when registered once (`observe_invokes_exactly_the_registered`, `observe_invokes_each_once`); a callback runs only
  while it is registered (`callback_runs_registered`, `begun_only_registered`);
* when `RemoveCallback` / `CleanupCallback` returns, the registration(s) are gone and NO callback is running
  (`remove_returns_unregistered_and_quiet`, `cleanup_returns_unregistered_and_quiet`), and from then on the callback is
  never begun again in any execution that does not `push_back` it again (`never_invoked_after_remove_returned`,
  `never_invoked_after_instrument_destroyed`, on top of `unregistered_until_readded`).

The step structure the model assumes is re-extracted from `observable_registry.cc` on every run
(`gen_obsreg_lock_facts`); real executions of the unmodified file under the deterministic scheduler are replayed on the
model (`Model/ObsRegLock.lean` `astep`, `replay_sound`). -/
namespace Otel.C17Race
open Otel Otel.ObsRegLock

/-- does a thread at this program counter hold `callbacks_m_`? -/
def holds : Pc → Bool
  | .aPush _ => true
  | .aUnlock _ => true
  | .rErase _ => true
  | .rUnlock _ => true
  | .cErase _ => true
  | .cUnlock _ => true
  | .oLoop _ _ _ => true
  | .oCb _ _ _ _ => true
  | .oUnlock _ _ => true
  | _ => false

theorem holds_lock {s : St} (hI : Inv s) (t : Nat) (ht : holds (s.pc t) = true) : s.lock = some t := by
  have h := hI t
  unfold TInv at h
  cases hp : s.pc t <;> rw [hp] at h ht <;> first | exact h | exact h.1 | cases ht

section reachable
variable {regs : List Reg} {as : List Act} {s : St} (h : run (init regs) as = some s)
include h

/-- **mutual exclusion** of `AddCallback` / `RemoveCallback` / `CleanupCallback` / the whole of `Observe` -/
theorem mutual_exclusion (t t' : Nat) (ht : holds (s.pc t) = true) (ht' : holds (s.pc t') = true) : t = t' :=
  holder_unique (holds_lock (reachable_inv regs as s h) t ht) (holds_lock (reachable_inv regs as s h) t' ht')

/-- **while an `Observe` runs, `callbacks_` is what it was when the `Observe` took the lock**, and the callbacks begun so
    far are its first `k` records -/
theorem observe_sees_stable_list (t k : Nat) (snap inv : List Reg) :
    (s.pc t = .oLoop k snap inv → s.cbs = snap ∧ inv = snap.take k) ∧
    (∀ r, s.pc t = .oCb k snap inv r → s.cbs = snap ∧ snap[k]? = some r ∧ inv = snap.take (k + 1)) := by
  have ht := reachable_inv regs as s h t
  unfold TInv at ht
  constructor
  · intro hp; rw [hp] at ht; exact ht.2
  · intro r hp; rw [hp] at ht; exact ht.2

/-- **each collection invokes exactly the registered callbacks**: when an `Observe` is about to return, the callbacks it
    has begun are `callbacks_` — the same list from the moment it took the lock — in order -/
theorem observe_invokes_exactly_the_registered (t : Nat) (snap inv : List Reg) (hp : s.pc t = .oUnlock snap inv) :
    inv = s.cbs ∧ snap = s.cbs := by
  have ht := reachable_inv regs as s h t
  unfold TInv at ht; rw [hp] at ht
  exact ⟨by rw [ht.2.2, ht.2.1], ht.2.1.symm⟩

/-- **exactly once**: every registration is invoked as often as it is registered; exactly once when it is registered once,
    never when it is not registered -/
theorem observe_invokes_each_once (t : Nat) (snap inv : List Reg) (hp : s.pc t = .oUnlock snap inv) (r : Reg) :
    inv.count r = s.cbs.count r ∧ (s.cbs.count r = 1 → inv.count r = 1) ∧ (r ∉ s.cbs → r ∉ inv) := by
  have := (observe_invokes_exactly_the_registered h t snap inv hp).1
  rw [this]
  exact ⟨rfl, id, id⟩

/-- **a callback runs only while it is registered** -/
theorem callback_runs_registered (t k : Nat) (snap inv : List Reg) (r : Reg) (hp : s.pc t = .oCb k snap inv r) : r ∈ s.cbs := by
  obtain ⟨hc, hg, _⟩ := (observe_sees_stable_list h t k snap inv).2 r hp
  rw [hc]
  exact List.mem_of_getElem? hg

/-- when `AddCallback` is about to return the registration is in the vector -/
theorem add_returns_registered (t : Nat) (r : Reg) (hp : s.pc t = .aUnlock r) : r ∈ s.cbs := by
  have ht := reachable_inv regs as s h t
  unfold TInv at ht; rw [hp] at ht
  exact ht.2

/-- no callback is running while another thread holds the mutex -/
theorem quiet_while_locked (t : Nat) (ht : holds (s.pc t) = true) (t' k : Nat) (snap inv : List Reg) (r' : Reg)
    (hne : t' ≠ t) : s.pc t' ≠ .oCb k snap inv r' := by
  intro hp
  exact hne (mutual_exclusion h t' t (by rw [hp]; rfl) ht)

/-- **when `RemoveCallback(r)` returns, `r` is not registered and no callback is running** (so the caller may free the
    callback's state) -/
theorem remove_returns_unregistered_and_quiet (t : Nat) (r : Reg) (hp : s.pc t = .rUnlock r) :
    r ∉ s.cbs ∧ ∀ t' k snap inv r', s.pc t' ≠ .oCb k snap inv r' := by
  have ht := reachable_inv regs as s h t
  unfold TInv at ht; rw [hp] at ht
  refine ⟨ht.2, fun t' k snap inv r' hp' => ?_⟩
  by_cases hne : t' = t
  · subst hne; rw [hp] at hp'; cases hp'
  · exact quiet_while_locked h t (by rw [hp]; rfl) t' k snap inv r' hne hp'

/-- **when `CleanupCallback(i)` (the instrument's destructor) returns, no callback of instrument `i` is registered and
    no callback is running** -/
theorem cleanup_returns_unregistered_and_quiet (t i : Nat) (hp : s.pc t = .cUnlock i) :
    (∀ r, r ∈ s.cbs → r.inst ≠ i) ∧ ∀ t' k snap inv r', s.pc t' ≠ .oCb k snap inv r' := by
  have ht := reachable_inv regs as s h t
  unfold TInv at ht; rw [hp] at ht
  refine ⟨ht.2, fun t' k snap inv r' hp' => ?_⟩
  by_cases hne : t' = t
  · subst hne; rw [hp] at hp'; cases hp'
  · exact quiet_while_locked h t (by rw [hp]; rfl) t' k snap inv r' hne hp'

end reachable

/-- the only step that can put `r` into the vector is a `push_back` of `r` -/
theorem unregistered_step (r : Reg) (s s' : St) (a : Act) (hr : r ∉ s.cbs) (hp : isPush s r a = false) (ha : act s a = some s') :
    r ∉ s'.cbs := by
  cases a with
  | call t op =>
    simp only [act, call] at ha
    cases hpc : s.pc t <;> rw [hpc] at ha <;> simp only at ha <;> first | cases ha | skip
    cases op <;> simp only at ha <;> cases ha <;> exact hr
  | step t =>
    simp only [isPush, beq_eq_false_iff_ne, ne_eq] at hp
    simp only [act, step] at ha
    cases hpc : s.pc t <;> rw [hpc] at ha <;> simp only at ha
    case idle => cases ha
    case aLock => split at ha <;> cases ha; exact hr
    case aPush r' =>
      cases ha
      have : r' ≠ r := fun e => hp (by rw [hpc, e])
      simp only [List.mem_append, List.mem_singleton, not_or]
      exact ⟨hr, fun e => this e.symm⟩
    case aUnlock => cases ha; exact hr
    case rLock => split at ha <;> cases ha; exact hr
    case rErase => cases ha; exact fun hm => hr (List.mem_filter.mp hm).1
    case rUnlock => cases ha; exact hr
    case cLock => split at ha <;> cases ha; exact hr
    case cErase => cases ha; exact fun hm => hr (List.mem_filter.mp hm).1
    case cUnlock => cases ha; exact hr
    case oLock => split at ha <;> cases ha; exact hr
    case oLoop => split at ha <;> cases ha <;> exact hr
    case oCb => cases ha; exact hr
    case oUnlock => cases ha; exact hr

/-- **unregistered until re-added**: in an execution without a `push_back` of `r`, `r` stays out of the vector -/
theorem unregistered_until_readded (r : Reg) : ∀ (as : List Act) (s s' : St), r ∉ s.cbs → runAvoid r s as = some s' → r ∉ s'.cbs
  | [], s, s', hr, h => by simp only [runAvoid] at h; cases h; exact hr
  | a :: as, s, s', hr, h => by
    simp only [runAvoid] at h
    cases hp : isPush s r a with
    | true => rw [hp] at h; simp at h
    | false =>
      rw [hp] at h; simp only [Bool.false_eq_true, if_false] at h
      cases ha : act s a with
      | none => rw [ha] at h; cases h
      | some s1 => rw [ha] at h; exact unregistered_until_readded r as s1 s' (unregistered_step r s s1 a hr hp ha) h

theorem runAvoid_run (r : Reg) : ∀ (as : List Act) (s s' : St), runAvoid r s as = some s' → run s as = some s'
  | [], s, s', h => by simp only [runAvoid] at h; simpa [run] using h
  | a :: as, s, s', h => by
    simp only [runAvoid] at h
    cases hp : isPush s r a with
    | true => rw [hp] at h; simp at h
    | false =>
      rw [hp] at h; simp only [Bool.false_eq_true, if_false] at h
      simp only [run]
      cases ha : act s a with
      | none => rw [ha] at h; cases h
      | some s1 => rw [ha] at h; exact runAvoid_run r as s1 s' h

/-- **a removed callback is never invoked again**: from the moment `RemoveCallback(r)` is about to return, in every
    continuation that does not `push_back` `r` again (no `AddCallback(r)` gets to its append), at every later moment `r`
    is not registered and no thread is inside the callback `r` — in particular none ever begins it -/
theorem never_invoked_after_remove_returned {regs : List Reg} {as : List Act} {s : St} (h : run (init regs) as = some s)
    (t : Nat) (r : Reg) (hp : s.pc t = .rUnlock r) (bs : List Act) (s' : St) (hb : runAvoid r s bs = some s') :
    r ∉ s'.cbs ∧ ∀ t' k snap inv, s'.pc t' ≠ .oCb k snap inv r := by
  have hr := (remove_returns_unregistered_and_quiet h t r hp).1
  have hr' := unregistered_until_readded r bs s s' hr hb
  have h' : run (init regs) (as ++ bs) = some s' := run_append as bs _ s s' h (runAvoid_run r bs s s' hb)
  exact ⟨hr', fun t' k snap inv hp' => hr' (callback_runs_registered h' t' k snap inv r hp')⟩

/-- **a callback whose instrument was destroyed is never invoked again** -/
theorem never_invoked_after_instrument_destroyed {regs : List Reg} {as : List Act} {s : St} (h : run (init regs) as = some s)
    (t i : Nat) (hp : s.pc t = .cUnlock i) (r : Reg) (hi : r.inst = i) (bs : List Act) (s' : St) (hb : runAvoid r s bs = some s') :
    r ∉ s'.cbs ∧ ∀ t' k snap inv, s'.pc t' ≠ .oCb k snap inv r := by
  have hr : r ∉ s.cbs := fun hm => (cleanup_returns_unregistered_and_quiet h t i hp).1 r hm hi
  have hr' := unregistered_until_readded r bs s s' hr hb
  have h' : run (init regs) (as ++ bs) = some s' := run_append as bs _ s s' h (runAvoid_run r bs s s' hb)
  exact ⟨hr', fun t' k snap inv hp' => hr' (callback_runs_registered h' t' k snap inv r hp')⟩

/-- the ghost log of begun callbacks grows only by a callback that is registered at that moment -/
theorem begun_only_registered (s s' : St) (a : Act) (ha : act s a = some s') :
    s'.begun = s.begun ∨ ∃ r, r ∈ s.cbs ∧ s'.begun = s.begun ++ [r] := by
  cases a with
  | call t op =>
    simp only [act, call] at ha
    cases hpc : s.pc t <;> rw [hpc] at ha <;> simp only at ha <;> first | cases ha | skip
    cases op <;> simp only at ha <;> cases ha <;> exact Or.inl rfl
  | step t =>
    simp only [act, step] at ha
    cases hpc : s.pc t <;> rw [hpc] at ha <;> simp only at ha
    case idle => cases ha
    case aLock => split at ha <;> cases ha; exact Or.inl rfl
    case aPush => cases ha; exact Or.inl rfl
    case aUnlock => cases ha; exact Or.inl rfl
    case rLock => split at ha <;> cases ha; exact Or.inl rfl
    case rErase => cases ha; exact Or.inl rfl
    case rUnlock => cases ha; exact Or.inl rfl
    case cLock => split at ha <;> cases ha; exact Or.inl rfl
    case cErase => cases ha; exact Or.inl rfl
    case cUnlock => cases ha; exact Or.inl rfl
    case oLock => split at ha <;> cases ha; exact Or.inl rfl
    case oLoop k snap inv =>
      cases hg : s.cbs[k]? with
      | none => rw [hg] at ha; cases ha; exact Or.inl rfl
      | some r => rw [hg] at ha; cases ha; exact Or.inr ⟨r, List.mem_of_getElem? hg, rfl⟩
    case oCb => cases ha; exact Or.inl rfl
    case oUnlock => cases ha; exact Or.inl rfl

/-- **the refinement check is sound**: a real execution whose events the replay accepts passes only through states of
    the model -/
theorem replay_sound (regs : List Reg) (es : List Ev) (s : St) (h : arun (init regs) es = some s) :
    ∀ t snap inv, s.pc t = .oUnlock snap inv → inv = s.cbs := by
  obtain ⟨as, h1⟩ := arun_run es (init regs) s h
  exact fun t snap inv hp => (observe_invokes_exactly_the_registered h1 t snap inv hp).1

/-- the facts of the source text the step structure stands on (re-extracted from `observable_registry.cc` on every run):
    every member function that touches `callbacks_` declares a lock guard on `callbacks_m_` at its top level before the
    first such use and never releases it early; `Observe` invokes callbacks only inside its loop over the live
    `callbacks_` (under that guard); `AddCallback` appends, `RemoveCallback` / `CleanupCallback` erase -/
theorem gen_obsreg_lock_facts :
    Gen.obsRegGuardBeforeFirstUse = true ∧ Gen.obsRegLockHeldToReturn = true ∧ Gen.obsRegObserveInvokesUnderLock = true ∧
    Gen.obsRegAddAppendsRemoveErases = true := by decide

/-! ## Non-vacuity -/

def r0 : Reg := ⟨0, 0⟩
def r1 : Reg := ⟨1, 1⟩

/-- a collector (thread 0) is parked inside callback `r0` while thread 1 tries to remove `r1`: the remover cannot get in;
    the collection invokes both callbacks, then the removal goes through, the next collection invokes `r0` only -/
def demo : List Act :=
  [.call 0 .observe, .step 0, .step 0, .call 1 (.remove r1), .step 0, .step 0, .step 0, .step 0, .step 0,
   .step 1, .step 1, .step 1, .call 0 .observe, .step 0, .step 0, .step 0, .step 0, .step 0]
example : (run (init [r0, r1]) demo).map (fun s => (s.begun, s.cbs, s.lock)) = some ([r0, r1, r0], [r0], none) := by decide
example : run (init [r0, r1]) [.call 0 .observe, .step 0, .step 0, .call 1 (.remove r1), .step 1] = none := by decide

/-- the hypotheses of the "never again" theorems are reachable, and a continuation without re-adding exists -/
example : ∃ as s, run (init [r0, r1]) as = some s ∧ s.pc 1 = .rUnlock r1 ∧
    (runAvoid r1 s [.step 1, .call 0 .observe, .step 0, .step 0, .step 0, .step 0, .step 0]).map (fun s' => s'.begun) = some [r0] :=
  ⟨[.call 1 (.remove r1), .step 1, .step 1], _, rfl, by decide, by decide⟩

/-- re-adding is refused by `runAvoid` (so the theorem's hypothesis is not vacuous in the other direction either) -/
example : runAvoid r1 (init [r0]) [.call 1 (.add r1), .step 1, .step 1] = none := by decide

end Otel.C17Race
