import OtelVerif.Lemmas.BatchRing.Enable
/-! # C01, end to end: the batch protocol on top of the real lock-free queue

`Props/C01.lean` states C01 on the protocol model, whose queue is two counters, and cites C11 for the queue behind them.
Here the citation is replaced by a proof: in the composed model (`Model/BatchRing.lean`) a producer's `Add` runs on the
ring access by access, the worker's `Consume` is the ring's, and the protocol model only sees the outcomes.  Every
reachable state satisfies the ring's invariants, the protocol's invariant and the coupling between them
(`Otel.BatchRing.reachable`), the pairing never blocks on a guard of the protocol model (`commit_enabled`,
`drop_enabled`, `consume_enabled`, `add_begins`, `clearing_progress`), and the end-to-end statements below follow.
`s.r.log` is the commit order of the queue (element ids), `s.r.out` what the worker's callback has taken out, in order;
the worker hands `Export` what it took out, batch by batch, and `s.b.exported` counts what has been handed over. -/
namespace Otel.C01
open Otel Otel.BatchRing

section composed
variable {maxQ maxB : Nat} (hq : 1 ≤ maxQ) (hb : 1 ≤ maxB) {as : List BatchRing.Act} {s : BatchRing.St}
  (h : BatchRing.run (BatchRing.init maxQ maxB) as = some s)
include hq hb h

/-- **exactly once, in commit order**: what has been handed to the exporter so far is the first `exported` elements of
    the commit log — each accepted record at most once (the log has no duplicates), none that was not accepted, in the
    order the queue committed them -/
theorem delivered_is_log_prefix :
    s.r.out.take s.b.exported = s.r.log.take s.b.exported ∧ s.r.log.Nodup ∧ s.b.exported ≤ s.r.out.length ∧
    s.r.log.length = s.b.head := by
  obtain ⟨hJ, hI⟩ := BatchRing.reachable maxQ maxB hq hb as s h
  have ho := hI.ri.outEq
  have hl := hI.ri.logLen
  have h1 := hI.ri.clrLe; have h2 := hI.ri.tailLe
  have he := hJ.exp
  refine ⟨?_, hI.ri2.logNodup, ?_, by rw [hl, hJ.hd]⟩
  · rw [ho, List.take_take, Nat.min_eq_left he]
  · rw [ho, List.length_take, hl]; omega

/-- **each producer's records reach the exporter in the order that producer ended them**: the commit log restricted to
    one producer is increasing in the producer's own call order (element ids are issued in call order) -/
theorem per_producer_order (p : Nat) : (s.r.log.filter (fun e => s.r.own e == p)).Pairwise (· < ·) :=
  (BatchRing.reachable maxQ maxB hq hb as s h).2.ri2.ownSorted p

/-- **everything accepted before shutdown is delivered**: once the worker has finished (which every returning `Shutdown`
    waits for), what the worker took out of the queue is exactly what was handed to `Export`, it is a prefix of the
    commit log, and that prefix covers every record committed before `is_shutdown` was set -/
theorem accepted_delivered_at_shutdown_e2e (hd : s.b.wpc = .done) :
    s.r.out = s.r.log.take s.b.exported ∧ s.b.sdHead ≤ s.b.exported ∧ s.r.clr = s.b.exported := by
  obtain ⟨hJ, hI⟩ := BatchRing.reachable maxQ maxB hq hb as s h
  have hw := hI.bi.w
  unfold Batch.WInv at hw; rw [hd] at hw; simp only at hw
  have hc := hJ.clr (by intro r n T R num; rw [hd]; simp)
  have ht := hJ.tl
  have hce : s.r.clr = s.b.exported := by omega
  exact ⟨by rw [hI.ri.outEq, hce], hw.2.2.2, hce⟩

/-- the queue never holds more than `max_queue_size` records -/
theorem queue_bounded : s.b.head - s.b.tail ≤ maxQ := by
  obtain ⟨hJ, hI⟩ := BatchRing.reachable maxQ maxB hq hb as s h
  have := hI.ri.sizeLe
  have hc := hJ.cap
  have hmq : s.b.maxQ = maxQ := BatchRing.maxQ_run as _ s h
  rw [hJ.hd, hJ.tl] at this
  omega

/-- **dropped only because the queue was at capacity**: the protocol model counts a drop exactly when an `Add` on the
    ring returns false, and then the `Add` calls begun before it returned (itself excluded) minus the records the worker
    had taken out when it began are at least `max_queue_size` -/
theorem drop_is_a_failed_add (p : Nat) (s' : BatchRing.St) (hs : BatchRing.step s (.add (.pLdHead p)) = some s')
    (hdrop : s'.b.dropped = s.b.dropped + 1) : (s.r.nextId - 1) - Ring.c0Of s.r p ≥ maxQ ∧ Ring.pcOf s'.r p = .idle := by
  obtain ⟨hJ, hI⟩ := BatchRing.reachable maxQ maxB hq hb as s h
  obtain ⟨r', b'⟩ := s'
  simp only [BatchRing.step] at hs
  split at hs
  · rename_i hin
    split at hs
    · rename_i t hpc
      split at hs
      · rename_i hfull
        have hf := ring_full s.r hI.ri hI.ri2 p t hpc hfull
        have hcap := hJ.cap
        obtain ⟨h1, h2⟩ := pair_some hs
        simp only at h1
        have hpc' : (s.r.prods p).pc = .ldHead t := hpc
        simp only [Ring.step, hpc', hfull, ↓reduceIte] at h1
        cases h1
        refine ⟨?_, by simp [Ring.pcOf, setPc_pc]⟩
        have hmq : s.b.maxQ = maxQ := BatchRing.maxQ_run as _ s h
        omega
      · -- not full: the protocol side does not move, so `dropped` cannot have changed
        obtain ⟨h1, _⟩ := onlyR_some hs
        simp only at h1
        rw [h1] at hdrop; simp at hdrop
    · cases hs
  · cases hs

end composed

/-! ## Non-vacuity: one record travels through the ring to the exporter in the composed model -/
def demoCompose : List BatchRing.Act :=
  [.prod 0, .chk 0,                                                      -- OnEnd begins, is_shutdown false: Add begins
   .add (.pLdTail 0), .add (.pLdHead 0), .add (.pSwap 0 false), .add (.pCas 0 false),   -- Add: commit
   .prod 0,                                                              -- OnEnd returns
   .wWake, .wStep, .wStep, .wStep,                                       -- worker: chk, ticket, size
   .wStep,                                                               -- tail_ += 1 (ring cTake 1)
   .clear,                                                               -- the callback moves the record out
   .wStep, .wStep]                                                       -- Export called, Export returns
example : (BatchRing.run (BatchRing.init 2 1) demoCompose).map (fun s => (s.r.log, s.r.out, s.b.exported, s.b.head, s.r.clr)) =
    some ([0], [0], 1, 1, 1) := by decide

end Otel.C01
