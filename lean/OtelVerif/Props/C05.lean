import Mathlib.Data.List.Nodup
import Mathlib.Data.List.Range
import OtelVerif.Model.Tracer
import OtelVerif.Lemmas.Bytes
/-! # C05 — New spans get correct identity, parentage, flags and trace state

Property theorems about `Model/Tracer.lean` (which mirrors `Tracer::StartSpan` of `sdk/src/trace/tracer.cc`, the
`Span` constructor's `SetIdentity`, `trace/context.h`, `trace/scope.h`, `Tracer::GetCurrentSpan`).  The flag constants
and the mask applied by `StartSpan` come from `Gen/Tracer.lean`, re-extracted from the source on every run.

Everything is for **every** sampler (built-in, parent-based, or an arbitrary user function `custom f`), every id
generator (a pair of streams `spanIdOf`, `traceIdOf`), every active context and every operation sequence.
"Fresh non-zero ids" is relative to the explicit hypothesis that the ids the generator returned during the run are
non-zero and pairwise distinct (`GoodGen`): the random generator itself is not modelled. -/
namespace Otel.C05
open Otel Otel.Sampler Otel.Tracer

/-! ## Parentage -/

/-- `some c` when `c` is a valid span context -/
def validOrNone (c : SpanContext) : Option SpanContext := if c.isValid then some c else none

/-- **The precedence of the property text**, written independently of the code path: a valid explicit `SpanContext`;
    else — when a `Context` is given — the valid span stored in it; the root marker of such a `Context` (without a valid
    span) means "no parent"; in every remaining case the span active on the calling thread, if valid. -/
def specParent (active : SpanContext) : ParentOpt → Option SpanContext
  | .spanContext sc => if sc.isValid then some sc else validOrNone active
  | .context c =>
    match c.span with
    | some s => if s.isValid then some s else if c.isRoot then none else validOrNone active
    | none => if c.isRoot then none else validOrNone active

theorem invalid_not_valid : SpanContext.invalid.isValid = false := by decide

/-- the code's parent resolution implements the specified precedence -/
theorem resolveParent_eq_spec (active : SpanContext) (p : ParentOpt) :
    validOrNone (resolveParent active p) = specParent active p := by
  cases p with
  | spanContext sc =>
    unfold resolveParent specParent
    by_cases h : sc.isValid = true
    · simp [h, validOrNone]
    · simp [h]
  | context c =>
    obtain ⟨sp, root⟩ := c
    cases sp with
    | none => cases root <;> simp [resolveParent, specParent, Ctx.spanContext, validOrNone, invalid_not_valid]
    | some s =>
      by_cases h : s.isValid = true <;> cases root <;>
        simp [resolveParent, specParent, Ctx.spanContext, validOrNone, invalid_not_valid, h]

/-- **Parent precedence**, clause by clause, whatever span is active on the thread:
    1. a valid explicit `SpanContext` is the parent;
    2. a valid span in an explicit `Context` is the parent (also when that context carries the root marker);
    3. an explicit `Context` without a valid span but with the root marker: no parent at all;
    4. an invalid explicit `SpanContext` (the default of `StartSpanOptions`) falls back to the active span;
    5. an explicit `Context` without a valid span and without root marker falls back to the active span. -/
theorem parent_precedence (active : SpanContext) :
    (∀ sc, sc.isValid = true → resolveParent active (.spanContext sc) = sc) ∧
    (∀ c s, c.span = some s → s.isValid = true → resolveParent active (.context c) = s) ∧
    (∀ c, c.spanContext.isValid = false → c.isRoot = true → (resolveParent active (.context c)).isValid = false) ∧
    (∀ sc, sc.isValid = false → resolveParent active (.spanContext sc) = active) ∧
    (∀ c, c.spanContext.isValid = false → c.isRoot = false → resolveParent active (.context c) = active) := by
  refine ⟨?_, ?_, ?_, ?_, ?_⟩
  · intro sc h; simp [resolveParent, h]
  · intro c s hs h; simp [resolveParent, Ctx.spanContext, hs, h]
  · intro c h hr; simp [resolveParent, h, hr, invalid_not_valid]
  · intro sc h; simp [resolveParent, h]
  · intro c h hr; simp [resolveParent, h, hr]

/-! ## Identity of one started span -/

section start
variable (fixed : Bool) (cfg : Config) (g : GenState) (active : SpanContext) (p : ParentOpt) (sa : StartArgs)

/-- the ghost fields say what they are meant to say -/
theorem started_ghosts :
    let r := startSpanV fixed cfg g active p sa
    r.1.parent = resolveParent active p ∧
    r.1.result = shouldSample cfg.sampler ⟨resolveParent active p, r.1.ctx.traceId, sa.name, sa.kind, sa.attributes, sa.links⟩ := by
  simp [startSpanV]

/-- **A span with a valid parent** has the parent's trace id, records the parent's span id as its parent, takes the
    generator's next span id, and draws no trace id. -/
theorem child_identity (h : (resolveParent active p).isValid = true) :
    let r := startSpanV fixed cfg g active p sa
    r.1.ctx.traceId = (resolveParent active p).traceId ∧
    r.1.parentSpanId = (resolveParent active p).spanId ∧
    r.1.ctx.spanId = cfg.spanIdOf g.spanCalls ∧
    r.2 = ⟨g.spanCalls + 1, g.traceCalls⟩ := by
  simp [startSpanV, h]

/-- **A span without a valid parent** starts a new trace: the generator's next trace id, its next span id, and the
    all-zero parent span id ("no parent"). -/
theorem root_identity (h : (resolveParent active p).isValid = false) :
    let r := startSpanV fixed cfg g active p sa
    r.1.ctx.traceId = cfg.traceIdOf g.traceCalls ∧
    r.1.ctx.spanId = cfg.spanIdOf g.spanCalls ∧
    r.1.parentSpanId = zeroSpanId ∧
    r.2 = ⟨g.spanCalls + 1, g.traceCalls + 1⟩ := by
  simp [startSpanV, h]

/-- **The root marker forces a new trace** even while a valid span is active on the thread — provided the marked
    `Context` does not itself carry a valid span (hypothesis spelled out; see the witness below). -/
theorem root_marker_forces_new_trace (c : Ctx) (hr : c.isRoot = true) (hs : c.spanContext.isValid = false) :
    let r := startSpanV fixed cfg g active (.context c) sa
    r.1.ctx.traceId = cfg.traceIdOf g.traceCalls ∧ r.1.parentSpanId = zeroSpanId ∧ r.1.parent.isValid = false := by
  have h : (resolveParent active (.context c)).isValid = false := (parent_precedence active).2.2.1 c hs hr
  simp [startSpanV, h]

/-- a `Context` that carries **both** a valid span and the root marker yields a child of that span (the order
    documented in `span_startoptions.h`: "1. If the Context contains a Span object, this Span is treated as the
    parent. 2. If the Context contains the boolean flag is_root_span …") -/
theorem root_marker_with_valid_span_witness :
    ∃ (c : Ctx) (active : SpanContext), c.isRoot = true ∧ (resolveParent active (.context c)).isValid = true :=
  ⟨⟨some ⟨[1,0,0,0,0,0,0,0,0,0,0,0,0,0,0,0], [1,0,0,0,0,0,0,0], 0, false, []⟩, true⟩, SpanContext.invalid, by decide⟩

theorem new_context_not_remote : (startSpanV fixed cfg g active p sa).1.ctx.remote = false := by
  simp [startSpanV]

end start

/-! ## Flags -/

theorem gen_constants : Gen.tracerIsSampled = 1 ∧ Gen.tracerIsRandom = 2 ∧ Gen.tracerFlagMask = 1 := by decide

/-- **The flags byte of a new span is exactly the sampler's decision in the W3C sampled bit** — whatever the parent's
    flags byte, the generator's randomness claim, and whether there is a parent (the code after the D03 repair). -/
theorem flags_eq_spec (pv : Bool) (pf : UInt8) (gr sampled : Bool) :
    flagsOf true pv pf gr sampled = if sampled then 1 else 0 := by
  have : ∀ pf : UInt8, ∀ pv gr sampled : Bool, flagsOf true pv pf gr sampled = if sampled then 1 else 0 :=
    forall_byte _ (by decide +kernel)
  exact this pf pv gr sampled

/-- only W3C level-1 flag bits, before and after the D03 repair -/
theorem flags_w3c1 (fixed pv : Bool) (pf : UInt8) (gr sampled : Bool) :
    flagsOf fixed pv pf gr sampled &&& 0xFE = 0 := by
  have : ∀ pf : UInt8, ∀ fixed pv gr sampled : Bool, flagsOf fixed pv pf gr sampled &&& 0xFE = 0 :=
    forall_byte _ (by decide +kernel)
  exact this pf fixed pv gr sampled

section start2
variable (fixed : Bool) (cfg : Config) (g : GenState) (active : SpanContext) (p : ParentOpt) (sa : StartArgs)

/-- **The sampled flag equals the sampler's decision.** -/
theorem sampled_flag_eq_decision :
    let r := startSpan cfg g active p sa
    (r.1.ctx.flags &&& 1 = 1 ↔ r.1.result.decision = .recordAndSample) ∧
    r.1.ctx.flags = (if r.1.result.isSampled then 1 else 0) := by
  have hf : (startSpan cfg g active p sa).1.ctx.flags = (if (startSpan cfg g active p sa).1.result.isSampled then 1 else 0) := by
    simp only [startSpan, startSpanV]
    exact flags_eq_spec _ _ _ _
  refine ⟨?_, hf⟩
  rw [hf]
  unfold Result.isSampled
  cases (startSpan cfg g active p sa).1.result.decision <;> decide

/-- **Only W3C level-1 flag bits are set** (parent flag bytes `0x02 … 0xff` do not leak into the child). -/
theorem only_w3c1_flag_bits : (startSpanV fixed cfg g active p sa).1.ctx.flags &&& 0xFE = 0 := by
  simp only [startSpanV]
  exact flags_w3c1 _ _ _ _ _

/-- D03, the code before the repair: under a sampled parent a span the sampler drops still carried `sampled = 1` -/
theorem d03_asis_witness :
    let cfg : Config := ⟨.alwaysOff, true, fun n => [0,0,0,0,0,0,0,UInt8.ofNat (n + 1)], fun _ => []⟩
    let parent : SpanContext := ⟨[1,0,0,0,0,0,0,0,0,0,0,0,0,0,0,0], [2,0,0,0,0,0,0,0], 1, true, []⟩
    let r := startSpanV false cfg ⟨0, 0⟩ SpanContext.invalid (.spanContext parent) ⟨[], 0, [], []⟩
    r.1.result.decision = .drop ∧ r.1.recording = false ∧ r.1.ctx.flags = 1 := by
  decide

/-- **Trace state: the sampler's if it gave one, else the parent's** (else, for a root span, the empty default). -/
theorem tracestate_precedence :
    let r := startSpanV fixed cfg g active p sa
    (∀ t, r.1.result.traceState = some t → r.1.ctx.traceState = t) ∧
    (r.1.result.traceState = none → r.1.parent.isValid = true → r.1.ctx.traceState = r.1.parent.traceState) ∧
    (r.1.result.traceState = none → r.1.parent.isValid = false → r.1.ctx.traceState = []) := by
  simp only [startSpanV]
  generalize shouldSample cfg.sampler _ = res
  obtain ⟨d, ts⟩ := res
  cases ts with
  | none => by_cases hv : (resolveParent active p).isValid = true <;> simp [hv]
  | some t => simp

/-- a `Span` (recording) is created exactly when the sampler does not answer DROP; otherwise a `NoopSpan` -/
theorem recording_iff_decision :
    let r := startSpanV fixed cfg g active p sa
    (r.1.recording = true ↔ r.1.result.decision ≠ .drop) := by
  simp only [startSpanV, Result.isRecording]
  cases (shouldSample cfg.sampler _).decision <;> decide

/-- **A span that is not recorded still exposes a valid context** with the identity of the clauses above: same
    ids, flags and trace state as a recorded one would get — given a non-zero generated span id and, for a root span, a
    non-zero generated trace id. -/
theorem dropped_span_valid_context
    (hs : Sampler.allZero (cfg.spanIdOf g.spanCalls) = false) (ht : Sampler.allZero (cfg.traceIdOf g.traceCalls) = false) :
    let r := startSpanV fixed cfg g active p sa
    r.1.ctx.isValid = true := by
  intro r
  by_cases hv : (resolveParent active p).isValid = true
  · have hc := child_identity fixed cfg g active p sa hv
    simp only at hc
    have hp := hv
    unfold SpanContext.isValid at hp
    simp only [Bool.and_eq_true, Bool.not_eq_true'] at hp
    show (!Sampler.allZero r.1.ctx.traceId && !Sampler.allZero r.1.ctx.spanId) = true
    rw [hc.1, hc.2.2.1, hp.1, hs]; rfl
  · have hv' : (resolveParent active p).isValid = false := by simpa using hv
    have hc := root_identity fixed cfg g active p sa hv'
    simp only at hc
    show (!Sampler.allZero r.1.ctx.traceId && !Sampler.allZero r.1.ctx.spanId) = true
    rw [hc.1, hc.2.1, ht, hs]; rfl

end start2

/-! ## Programs: every operation sequence, by induction -/

/-- what one operation does to the span table and the generator: nothing, or one `StartSpan` appended -/
theorem step_cases {fixed : Bool} {cfg : Config} {w w' : World} {op : Op} {o : Obs}
    (h : stepV fixed cfg w op = some (w', o)) :
    (w'.spans = w.spans ∧ w'.gen = w.gen) ∨
    (∃ t po sa, w'.spans = w.spans ++ [(startSpanV fixed cfg w.gen (w.active t) po sa).1] ∧
      w'.gen = (startSpanV fixed cfg w.gen (w.active t) po sa).2 ∧
      w'.exported = w.exported ∧ w'.ended = w.ended ∧ w'.stacks = w.stacks) := by
  cases op with
  | start t p sa =>
    simp only [stepV, Option.map_eq_some_iff] at h
    obtain ⟨po, _, h⟩ := h
    simp only [Prod.mk.injEq] at h
    obtain ⟨h, _⟩ := h
    subst h
    exact Or.inr ⟨t, po, sa, rfl, rfl, rfl, rfl, rfl⟩
  | withActive t k =>
    simp only [stepV, Option.map_eq_some_iff] at h
    obtain ⟨s, _, h⟩ := h
    simp only [Prod.mk.injEq] at h
    obtain ⟨h, _⟩ := h
    subst h
    exact Or.inl ⟨rfl, rfl⟩
  | endScope t =>
    simp only [stepV] at h
    split at h
    · cases h
    · simp only [Option.some.injEq, Prod.mk.injEq] at h
      obtain ⟨h, _⟩ := h
      subst h
      exact Or.inl ⟨rfl, rfl⟩
  | endSpan k =>
    simp only [stepV, Option.map_eq_some_iff] at h
    obtain ⟨s, _, h⟩ := h
    split at h
    · simp only [Prod.mk.injEq] at h; obtain ⟨h, _⟩ := h; subst h; exact Or.inl ⟨rfl, rfl⟩
    · split at h <;> (simp only [Prod.mk.injEq] at h; obtain ⟨h, _⟩ := h; subst h; exact Or.inl ⟨rfl, rfl⟩)

/-- **Anything true of every `StartSpan` result is true of every span of every program.** -/
theorem run_all_spans {fixed : Bool} {cfg : Config} (P : Started → Prop)
    (hP : ∀ g active p sa, P (startSpanV fixed cfg g active p sa).1) :
    ∀ (ops : List Op) (w w' : World) (obs : List Obs), (∀ s ∈ w.spans, P s) →
      runV fixed cfg w ops = some (w', obs) → ∀ s ∈ w'.spans, P s := by
  intro ops
  induction ops with
  | nil => intro w w' obs h0 h; simp only [runV, Option.some.injEq, Prod.mk.injEq] at h; rw [← h.1]; exact h0
  | cons op ops ih =>
    intro w w' obs h0 h
    simp only [runV] at h
    cases hs : stepV fixed cfg w op with
    | none => rw [hs] at h; cases h
    | some r =>
      obtain ⟨w1, o⟩ := r
      rw [hs] at h
      simp only [Option.map_eq_some_iff] at h
      obtain ⟨r2, hr, h2⟩ := h
      obtain ⟨w2, obs2⟩ := r2
      simp only [Prod.mk.injEq] at h2
      rw [← h2.1]
      refine ih w1 w2 obs2 ?_ hr
      rcases step_cases hs with ⟨e, _⟩ | ⟨t, po, sa, e, _⟩
      · rw [e]; exact h0
      · rw [e]
        intro s hm
        rcases List.mem_append.mp hm with hm | hm
        · exact h0 s hm
        · rw [List.mem_singleton.mp hm]; exact hP _ _ _ _

/-- the state invariant behind the freshness and export clauses -/
def isRootSpan (s : Started) : Bool := !s.parent.isValid

structure Inv (cfg : Config) (w : World) : Prop where
  spanIds : w.spans.map (·.ctx.spanId) = (List.range w.gen.spanCalls).map cfg.spanIdOf
  rootIds : (w.spans.filter isRootSpan).map (·.ctx.traceId) = (List.range w.gen.traceCalls).map cfg.traceIdOf
  expRec : ∀ k ∈ w.exported, ∃ s, w.spans[k]? = some s ∧ s.recording = true
  expEnded : ∀ k ∈ w.exported, k ∈ w.ended
  expNodup : w.exported.Nodup

theorem inv_init (cfg : Config) : Inv cfg World.init :=
  ⟨rfl, rfl, (by intro k h; simp [World.init] at h), (by intro k h; simp [World.init] at h), List.nodup_nil⟩

theorem getElem?_append_of_some {α} {l : List α} {k : Nat} {a : α} (x : List α) (h : l[k]? = some a) :
    (l ++ x)[k]? = some a := by
  have hk : k < l.length := by
    rcases Nat.lt_or_ge k l.length with hk | hk
    · exact hk
    · rw [List.getElem?_eq_none hk] at h; cases h
  rw [List.getElem?_append_left hk]; exact h

theorem step_inv {fixed : Bool} {cfg : Config} {w w' : World} {op : Op} {o : Obs}
    (hi : Inv cfg w) (h : stepV fixed cfg w op = some (w', o)) : Inv cfg w' := by
  cases op with
  | start t p sa =>
    simp only [stepV, Option.map_eq_some_iff] at h
    obtain ⟨po, _, h⟩ := h
    simp only [Prod.mk.injEq] at h
    obtain ⟨h, _⟩ := h
    subst h
    by_cases hv : (resolveParent (w.active t) po).isValid = true
    · have hc := child_identity fixed cfg w.gen (w.active t) po sa hv
      simp only at hc
      have hg := (started_ghosts fixed cfg w.gen (w.active t) po sa).1
      refine ⟨?_, ?_, ?_, hi.expEnded, hi.expNodup⟩
      · show (w.spans ++ [_]).map _ = _
        rw [hc.2.2.2, List.map_append, hi.spanIds, List.range_succ, List.map_append]
        simp [hc.2.2.1]
      · show ((w.spans ++ [_]).filter _).map _ = _
        rw [hc.2.2.2, List.filter_append]
        have : isRootSpan (startSpanV fixed cfg w.gen (w.active t) po sa).1 = false := by
          unfold isRootSpan; rw [hg, hv]; rfl
        simp [List.filter_cons, this, hi.rootIds]
      · intro k hk
        obtain ⟨s, hs, hr⟩ := hi.expRec k hk
        exact ⟨s, getElem?_append_of_some _ hs, hr⟩
    · have hv' : (resolveParent (w.active t) po).isValid = false := by simpa using hv
      have hc := root_identity fixed cfg w.gen (w.active t) po sa hv'
      simp only at hc
      have hg := (started_ghosts fixed cfg w.gen (w.active t) po sa).1
      refine ⟨?_, ?_, ?_, hi.expEnded, hi.expNodup⟩
      · show (w.spans ++ [_]).map _ = _
        rw [hc.2.2.2, List.map_append, hi.spanIds, List.range_succ, List.map_append]
        simp [hc.2.1]
      · show ((w.spans ++ [_]).filter _).map _ = _
        rw [hc.2.2.2, List.filter_append]
        have : isRootSpan (startSpanV fixed cfg w.gen (w.active t) po sa).1 = true := by
          unfold isRootSpan; rw [hg, hv']; rfl
        simp only [List.filter_cons, this, if_true, List.filter_nil, List.map_append, hi.rootIds, List.range_succ,
          List.map_cons, List.map_nil, hc.1]
      · intro k hk
        obtain ⟨s, hs, hr⟩ := hi.expRec k hk
        exact ⟨s, getElem?_append_of_some _ hs, hr⟩
  | withActive t k =>
    simp only [stepV, Option.map_eq_some_iff] at h
    obtain ⟨s, _, h⟩ := h
    simp only [Prod.mk.injEq] at h
    obtain ⟨h, _⟩ := h
    subst h
    exact ⟨hi.spanIds, hi.rootIds, hi.expRec, hi.expEnded, hi.expNodup⟩
  | endScope t =>
    simp only [stepV] at h
    split at h
    · cases h
    · simp only [Option.some.injEq, Prod.mk.injEq] at h
      obtain ⟨h, _⟩ := h
      subst h
      exact ⟨hi.spanIds, hi.rootIds, hi.expRec, hi.expEnded, hi.expNodup⟩
  | endSpan k =>
    simp only [stepV, Option.map_eq_some_iff] at h
    obtain ⟨s, hsk, h⟩ := h
    split at h
    · simp only [Prod.mk.injEq] at h; obtain ⟨h, _⟩ := h; subst h; exact hi
    · rename_i hne
      have hnot : k ∉ w.ended := by simpa using hne
      split at h
      · rename_i hrec
        simp only [Prod.mk.injEq] at h; obtain ⟨h, _⟩ := h; subst h
        refine ⟨hi.spanIds, hi.rootIds, ?_, ?_, ?_⟩
        · intro k' hk'
          rcases List.mem_append.mp hk' with hk' | hk'
          · exact hi.expRec k' hk'
          · rw [List.mem_singleton.mp hk']; exact ⟨s, hsk, hrec⟩
        · intro k' hk'
          rcases List.mem_append.mp hk' with hk' | hk'
          · exact List.mem_cons_of_mem _ (hi.expEnded k' hk')
          · rw [List.mem_singleton.mp hk']; exact List.mem_cons_self
        · show (w.exported ++ [k]).Nodup
          rw [List.nodup_append]
          refine ⟨hi.expNodup, List.nodup_singleton k, ?_⟩
          intro a ha b hb
          rw [List.mem_singleton.mp hb]
          intro e; subst e
          exact hnot (hi.expEnded a ha)
      · simp only [Prod.mk.injEq] at h; obtain ⟨h, _⟩ := h; subst h
        refine ⟨hi.spanIds, hi.rootIds, hi.expRec, ?_, hi.expNodup⟩
        intro k' hk'
        exact List.mem_cons_of_mem _ (hi.expEnded k' hk')

theorem run_inv {fixed : Bool} {cfg : Config} :
    ∀ (ops : List Op) (w w' : World) (obs : List Obs), Inv cfg w → runV fixed cfg w ops = some (w', obs) → Inv cfg w' := by
  intro ops
  induction ops with
  | nil => intro w w' obs hi h; simp only [runV, Option.some.injEq, Prod.mk.injEq] at h; rw [← h.1]; exact hi
  | cons op ops ih =>
    intro w w' obs hi h
    simp only [runV] at h
    cases hs : stepV fixed cfg w op with
    | none => rw [hs] at h; cases h
    | some r =>
      obtain ⟨w1, o⟩ := r
      rw [hs] at h
      simp only [Option.map_eq_some_iff] at h
      obtain ⟨r2, hr, h2⟩ := h
      obtain ⟨w2, obs2⟩ := r2
      simp only [Prod.mk.injEq] at h2
      rw [← h2.1]
      exact ih w1 w2 obs2 (step_inv hi hs) hr

/-! ### the clauses of the property over whole programs -/

/-- **the generator hypothesis**: the ids handed out during the run are non-zero and pairwise distinct -/
structure GoodGen (cfg : Config) (g : GenState) : Prop where
  spanNonzero : ∀ n, n < g.spanCalls → Sampler.allZero (cfg.spanIdOf n) = false
  traceNonzero : ∀ n, n < g.traceCalls → Sampler.allZero (cfg.traceIdOf n) = false
  spanInj : ∀ m n, m < g.spanCalls → n < g.spanCalls → cfg.spanIdOf m = cfg.spanIdOf n → m = n
  traceInj : ∀ m n, m < g.traceCalls → n < g.traceCalls → cfg.traceIdOf m = cfg.traceIdOf n → m = n

variable {cfg : Config} {ops : List Op} {w : World} {obs : List Obs}

/-- **Span ids are the generator's successive answers, one per `StartSpan`; the trace ids of the spans without a
    valid parent are its successive trace ids, one per root span** (children draw none). -/
theorem run_spans_ids (h : run cfg World.init ops = some (w, obs)) :
    w.spans.map (·.ctx.spanId) = (List.range w.spans.length).map cfg.spanIdOf ∧
    (w.spans.filter isRootSpan).map (·.ctx.traceId) = (List.range (w.spans.filter isRootSpan).length).map cfg.traceIdOf ∧
    w.gen.spanCalls = w.spans.length ∧ w.gen.traceCalls = (w.spans.filter isRootSpan).length := by
  have hi := run_inv ops _ _ _ (inv_init cfg) h
  have h1 : w.gen.spanCalls = w.spans.length := by
    have := congrArg List.length hi.spanIds
    simp at this; exact this.symm
  have h2 : w.gen.traceCalls = (w.spans.filter isRootSpan).length := by
    have := congrArg List.length hi.rootIds
    simp at this; exact this.symm
  exact ⟨h1 ▸ hi.spanIds, h2 ▸ hi.rootIds, h1, h2⟩

/-- **Fresh non-zero span ids**: pairwise distinct over the whole program, none zero. -/
theorem run_span_ids_fresh (h : run cfg World.init ops = some (w, obs)) (hg : GoodGen cfg w.gen) :
    (w.spans.map (·.ctx.spanId)).Nodup ∧ ∀ s ∈ w.spans, Sampler.allZero s.ctx.spanId = false := by
  have hi := run_inv ops _ _ _ (inv_init cfg) h
  constructor
  · rw [hi.spanIds]
    refine List.Nodup.map_on ?_ List.nodup_range
    intro x hx y hy
    exact hg.spanInj x y (List.mem_range.mp hx) (List.mem_range.mp hy)
  · intro s hs
    have : s.ctx.spanId ∈ w.spans.map (·.ctx.spanId) := List.mem_map.mpr ⟨s, hs, rfl⟩
    rw [hi.spanIds] at this
    obtain ⟨n, hn, e⟩ := List.mem_map.mp this
    rw [← e]; exact hg.spanNonzero n (List.mem_range.mp hn)

/-- **A span without a valid parent starts a new trace with a fresh non-zero trace id.** -/
theorem run_root_trace_ids_fresh (h : run cfg World.init ops = some (w, obs)) (hg : GoodGen cfg w.gen) :
    ((w.spans.filter isRootSpan).map (·.ctx.traceId)).Nodup ∧
    ∀ s ∈ w.spans, s.parent.isValid = false → Sampler.allZero s.ctx.traceId = false ∧ s.parentSpanId = zeroSpanId := by
  have hi := run_inv ops _ _ _ (inv_init cfg) h
  constructor
  · rw [hi.rootIds]
    refine List.Nodup.map_on ?_ List.nodup_range
    intro x hx y hy
    exact hg.traceInj x y (List.mem_range.mp hx) (List.mem_range.mp hy)
  · intro s hs hv
    constructor
    · have : s.ctx.traceId ∈ (w.spans.filter isRootSpan).map (·.ctx.traceId) :=
        List.mem_map.mpr ⟨s, List.mem_filter.mpr ⟨hs, by unfold isRootSpan; rw [hv]; rfl⟩, rfl⟩
      rw [hi.rootIds] at this
      obtain ⟨n, hn, e⟩ := List.mem_map.mp this
      rw [← e]; exact hg.traceNonzero n (List.mem_range.mp hn)
    · refine run_all_spans (fixed := true) (cfg := cfg) (fun s => s.parent.isValid = false → s.parentSpanId = zeroSpanId) ?_
        ops World.init w obs (by intro s hs; simp [World.init] at hs) h s hs hv
      intro g active p sa hv
      have hgh := (started_ghosts true cfg g active p sa).1
      rw [hgh] at hv
      exact (root_identity true cfg g active p sa hv).2.2.1

/-- **A span with a valid parent has the parent's trace id and records the parent's span id** (every span of every
    program; `parent` is the context the precedence rule resolved at its start). -/
theorem run_child_identity (h : run cfg World.init ops = some (w, obs)) :
    ∀ s ∈ w.spans, s.parent.isValid = true → s.ctx.traceId = s.parent.traceId ∧ s.parentSpanId = s.parent.spanId := by
  refine run_all_spans (fixed := true) (cfg := cfg)
    (fun s => s.parent.isValid = true → s.ctx.traceId = s.parent.traceId ∧ s.parentSpanId = s.parent.spanId) ?_
    ops World.init w obs (by intro s hs; simp [World.init] at hs) h
  intro g active p sa hv
  have hgh := (started_ghosts true cfg g active p sa).1
  rw [hgh] at hv ⊢
  have := child_identity true cfg g active p sa hv
  exact ⟨this.1, this.2.1⟩

/-- **Sampled flag = sampler decision, only the W3C level-1 bit, never remote, trace state by precedence** — for every
    span of every program. -/
theorem run_flags_and_tracestate (h : run cfg World.init ops = some (w, obs)) :
    ∀ s ∈ w.spans,
      (s.ctx.flags &&& 1 = 1 ↔ s.result.decision = .recordAndSample) ∧ s.ctx.flags &&& 0xFE = 0 ∧ s.ctx.remote = false ∧
      (s.recording = true ↔ s.result.decision ≠ .drop) ∧
      s.ctx.traceState = (match s.result.traceState with
        | some t => t
        | none => if s.parent.isValid then s.parent.traceState else []) := by
  refine run_all_spans (fixed := true) (cfg := cfg) _ ?_ ops World.init w obs (by intro s hs; simp [World.init] at hs) h
  intro g active p sa
  refine ⟨(sampled_flag_eq_decision cfg g active p sa).1, only_w3c1_flag_bits true cfg g active p sa,
    new_context_not_remote true cfg g active p sa, recording_iff_decision true cfg g active p sa, ?_⟩
  rfl

/-- **Every started span — recorded or not — exposes a valid context.** -/
theorem run_contexts_valid (h : run cfg World.init ops = some (w, obs)) (hg : GoodGen cfg w.gen) :
    ∀ s ∈ w.spans, s.ctx.isValid = true := by
  intro s hs
  have h1 := (run_span_ids_fresh h hg).2 s hs
  have h2 : Sampler.allZero s.ctx.traceId = false := by
    by_cases hv : s.parent.isValid = true
    · rw [(run_child_identity h s hs hv).1]
      unfold SpanContext.isValid at hv
      simp only [Bool.and_eq_true, Bool.not_eq_true'] at hv
      exact hv.1
    · exact ((run_root_trace_ids_fresh h hg).2 s hs (by simpa using hv)).1
  unfold SpanContext.isValid
  rw [h1, h2]; rfl

/-- everything handed to the exporter is a recorded span (the sampler did not answer DROP) -/
theorem run_exported_recording (h : run cfg World.init ops = some (w, obs)) :
    ∀ k ∈ w.exported, ∃ s, w.spans[k]? = some s ∧ s.recording = true ∧ s.result.decision ≠ .drop := by
  have hi := run_inv ops _ _ _ (inv_init cfg) h
  intro k hk
  obtain ⟨s, hs, hr⟩ := hi.expRec k hk
  have hm : s ∈ w.spans := List.mem_of_getElem? hs
  exact ⟨s, hs, hr, ((run_flags_and_tracestate h s hm).2.2.2.1).mp hr⟩

/-- **A span that is not recorded is never exported, yet still exposes a valid context for propagation.** -/
theorem dropped_span_valid_context_not_exported (h : run cfg World.init ops = some (w, obs)) (hg : GoodGen cfg w.gen)
    (k : Nat) (s : Started) (hs : w.spans[k]? = some s) (hd : s.result.decision = .drop) :
    k ∉ w.exported ∧ s.recording = false ∧ s.ctx.isValid = true ∧ s.ctx.flags = 0 := by
  have hm : s ∈ w.spans := List.mem_of_getElem? hs
  have hf := run_flags_and_tracestate h s hm
  have hrec : s.recording = false := by
    cases hr : s.recording with
    | false => rfl
    | true => exact absurd hd (hf.2.2.2.1.mp hr)
  refine ⟨?_, hrec, run_contexts_valid h hg s hm, ?_⟩
  · intro hk
    obtain ⟨s', hs', hr', _⟩ := run_exported_recording h k hk
    rw [hs] at hs'
    cases hs'
    rw [hrec] at hr'; cases hr'
  · have h1 : ¬ (s.ctx.flags &&& 1 = 1) := fun hc => by
      have := hf.1.mp hc; rw [hd] at this; cases this
    have h2 := hf.2.1
    revert h1 h2
    generalize s.ctx.flags = f
    revert f
    exact forall_byte _ (by decide +kernel)

/-- a recorded span is exported at most once -/
theorem run_exported_nodup (h : run cfg World.init ops = some (w, obs)) : w.exported.Nodup :=
  (run_inv ops _ _ _ (inv_init cfg) h).expNodup

/-! ## a tracer disabled by the `ScopeConfigurator` (tracer.cc:57-59 -> the API `NoopTracer`) -/

/-- a disabled tracer's `StartSpan` draws no id, touches no thread's stack and nothing already started, ended or exported:
    it only appends its no-op span -/
theorem disabled_start_frame {w w' : World} {t : Nat} {p : ParentSpec} {o : Obs} (h : startDisabled w t p = some (w', o)) :
    w'.gen = w.gen ∧ w'.stacks = w.stacks ∧ w'.ended = w.ended ∧ w'.exported = w.exported ∧
    w'.spans = w.spans ++ [noopStarted] ∧ o = .started noopStarted := by
  unfold startDisabled at h
  cases hr : resolveSpec w t p with
  | none => rw [hr] at h; cases h
  | some po =>
    rw [hr] at h
    simp only [Option.map_some, Option.some.injEq, Prod.mk.injEq] at h
    obtain ⟨h1, h2⟩ := h
    subst h1; subst h2
    exact ⟨rfl, rfl, rfl, rfl, rfl, rfl⟩

/-- the span of a disabled tracer is not recording, and ending it exports nothing -/
theorem disabled_span_never_exported {cfg : Config} {w w' : World} {t : Nat} {p : ParentSpec} {o : Obs}
    (h : startDisabled w t p = some (w', o)) :
    noopStarted.recording = false ∧
    ∃ w'', step cfg w' (.endSpan w.spans.length) = some (w'', .notExported) ∧ w''.exported = w.exported := by
  obtain ⟨_, _, _, hexp, hsp, _⟩ := disabled_start_frame h
  refine ⟨rfl, ?_⟩
  have hk : w'.spans[w.spans.length]? = some noopStarted := by rw [hsp]; simp
  unfold step stepV
  simp only [hk, Option.map_some]
  by_cases hc : w'.ended.contains w.spans.length = true
  · rw [if_pos hc]; exact ⟨_, rfl, hexp⟩
  · rw [if_neg hc]
    have : noopStarted.recording = false := rfl
    simp only [this]
    exact ⟨_, rfl, hexp⟩

/-- as-is: the no-op span of a disabled tracer does **not** expose a valid context, whatever parent was given (the
    statement's "still exposes this valid context for propagation" holds for spans dropped by the sampler - theorem
    `dropped_span_valid_context_not_exported` - not for spans of a disabled tracer) -/
theorem disabled_span_context_invalid_witness : noopStarted.ctx.isValid = false := by decide

/-- … so a span started by an enabled tracer under an active no-op span of a disabled tracer has no parent: with the
    active context invalid and no explicit parent, `resolveParent` answers the invalid context -/
theorem disabled_span_active_gives_root : resolveParent noopStarted.ctx (.spanContext SpanContext.invalid) = SpanContext.invalid := by
  decide

/-! ### threads -/

/-- the scope operations of thread `t` -/
def scopeOpOf (t : Nat) : Op → Bool
  | .withActive u _ => u == t
  | .endScope u => u == t
  | _ => false

/-- a thread's stack as a function of **its own** scope operations (and of the spans they name) -/
def applyScopes (spans : List Started) : List Ctx → List Op → List Ctx
  | st, [] => st
  | st, .withActive _ k :: ops =>
    match spans[k]? with
    | some s => applyScopes spans (⟨some s.ctx, (st.head?.getD Ctx.empty).isRoot⟩ :: st) ops
    | none => applyScopes spans st ops
  | st, .endScope _ :: ops => applyScopes spans st.tail ops
  | st, .start _ _ _ :: ops => applyScopes spans st ops
  | st, .endSpan _ :: ops => applyScopes spans st ops

theorem run_spans_prefix {fixed : Bool} {cfg : Config} :
    ∀ (ops : List Op) (w w' : World) (obs : List Obs), runV fixed cfg w ops = some (w', obs) →
      ∀ (k : Nat) (s : Started), w.spans[k]? = some s → w'.spans[k]? = some s := by
  intro ops
  induction ops with
  | nil => intro w w' obs h; simp only [runV, Option.some.injEq, Prod.mk.injEq] at h; rw [← h.1]; intro k s hs; exact hs
  | cons op ops ih =>
    intro w w' obs h k s hk
    simp only [runV] at h
    cases hs : stepV fixed cfg w op with
    | none => rw [hs] at h; cases h
    | some r =>
      obtain ⟨w1, o⟩ := r
      rw [hs] at h
      simp only [Option.map_eq_some_iff] at h
      obtain ⟨r2, hr, h2⟩ := h
      obtain ⟨w2, obs2⟩ := r2
      simp only [Prod.mk.injEq] at h2
      rw [← h2.1]
      refine ih w1 w2 obs2 hr k s ?_
      rcases step_cases hs with ⟨e, _⟩ | ⟨t, po, sa, e, _⟩
      · rw [e]; exact hk
      · rw [e]; exact getElem?_append_of_some _ hk

theorem stacks_general {fixed : Bool} {cfg : Config} (t : Nat) :
    ∀ (ops : List Op) (w w' : World) (obs : List Obs), runV fixed cfg w ops = some (w', obs) →
      w'.stacks t = applyScopes w'.spans (w.stacks t) (ops.filter (scopeOpOf t)) := by
  intro ops
  induction ops with
  | nil => intro w w' obs h; simp only [runV, Option.some.injEq, Prod.mk.injEq] at h; rw [← h.1]; rfl
  | cons op ops ih =>
    intro w w' obs h
    simp only [runV] at h
    cases hs : stepV fixed cfg w op with
    | none => rw [hs] at h; cases h
    | some r =>
      obtain ⟨w1, o⟩ := r
      rw [hs] at h
      simp only [Option.map_eq_some_iff] at h
      obtain ⟨r2, hr, h2⟩ := h
      obtain ⟨w2, obs2⟩ := r2
      simp only [Prod.mk.injEq] at h2
      rw [← h2.1]
      have ih' := ih w1 w2 obs2 hr
      have hpre := run_spans_prefix ops w1 w2 obs2 hr
      cases op with
      | start u p sa =>
        simp only [stepV, Option.map_eq_some_iff] at hs
        obtain ⟨po, _, hs⟩ := hs
        simp only [Prod.mk.injEq] at hs
        obtain ⟨hs, _⟩ := hs
        subst hs
        simpa [List.filter_cons, scopeOpOf] using ih'
      | endSpan k =>
        have hst : w1.stacks = w.stacks := by
          simp only [stepV, Option.map_eq_some_iff] at hs
          obtain ⟨s, _, hs⟩ := hs
          split at hs
          · simp only [Prod.mk.injEq] at hs; rw [← hs.1]
          · split at hs <;> (simp only [Prod.mk.injEq] at hs; rw [← hs.1])
        rw [hst] at ih'
        simpa [List.filter_cons, scopeOpOf] using ih'
      | withActive u k =>
        simp only [stepV, Option.map_eq_some_iff] at hs
        obtain ⟨s, hsk, hs⟩ := hs
        simp only [Prod.mk.injEq] at hs
        obtain ⟨hs, _⟩ := hs
        subst hs
        by_cases hu : u = t
        · subst hu
          have hk2 : w2.spans[k]? = some s := hpre k s hsk
          simp only [List.filter_cons, scopeOpOf, beq_self_eq_true, if_true, applyScopes, hk2]
          rw [ih']
          simp [setStack, World.current]
        · have hne : (u == t) = false := by simpa using hu
          simp only [List.filter_cons, scopeOpOf, hne]
          rw [ih']
          have : t ≠ u := fun e => hu e.symm
          simp [setStack, this]
      | endScope u =>
        simp only [stepV] at hs
        split at hs
        · cases hs
        · rename_i c rest hst
          simp only [Option.some.injEq, Prod.mk.injEq] at hs
          obtain ⟨hs, _⟩ := hs
          subst hs
          by_cases hu : u = t
          · subst hu
            simp only [List.filter_cons, scopeOpOf, beq_self_eq_true, if_true, applyScopes]
            rw [ih']
            simp [setStack, hst]
          · have hne : (u == t) = false := by simpa using hu
            simp only [List.filter_cons, scopeOpOf, hne]
            rw [ih']
            have : t ≠ u := fun e => hu e.symm
            simp [setStack, this]

/-- **Each thread has its own active-span stack**: after any program, thread `t`'s stack is determined by `t`'s own
    `WithActiveSpan` / scope-exit operations alone — no `StartSpan`, `End`, or scope operation of another thread, in
    whatever interleaving, has any effect on it. -/
theorem threads_have_own_active_stack (h : run cfg World.init ops = some (w, obs)) (t : Nat) :
    w.stacks t = applyScopes w.spans [] (ops.filter (scopeOpOf t)) :=
  stacks_general t ops World.init w obs h

/-- … and `StartSpan` on thread `t` reads only `t`'s stack: worlds that agree on the generator, the span table and
    thread `t`'s stack give the same span, whatever the other threads' stacks hold. -/
theorem start_uses_own_thread_only (cfg : Config) (w₁ w₂ : World) (t : Nat) (p : ParentSpec) (sa : StartArgs)
    (hg : w₁.gen = w₂.gen) (hs : w₁.spans = w₂.spans) (ht : w₁.stacks t = w₂.stacks t) :
    (step cfg w₁ (.start t p sa)).map (·.2) = (step cfg w₂ (.start t p sa)).map (·.2) := by
  have hc : w₁.current t = w₂.current t := by unfold World.current; rw [ht]
  have ha : w₁.active t = w₂.active t := by unfold World.active; rw [hc]
  have hr : resolveSpec w₁ t p = resolveSpec w₂ t p := by
    cases p <;> simp [resolveSpec, hs, hc]
  simp only [step, stepV]
  rw [hr, ha, hg]
  cases resolveSpec w₂ t p <;> simp

/-! ## The hypotheses are satisfiable -/

/-- a generator as the harness uses it (8/16-byte big-endian counters from 1) satisfies `GoodGen` on a short run;
    a three-operation program: root, child under it on the same thread, and an unrelated root on another thread -/
example :
    let cfg : Config := ⟨.parentBased .alwaysOn, true, fun n => [0,0,0,0,0,0,0,UInt8.ofNat (n + 1)],
      fun n => [0,0,0,0,0,0,0,0,0,0,0,0,0,0,0,UInt8.ofNat (n + 1)]⟩
    ∃ w obs, run cfg World.init [.start 0 .default ⟨[], 0, [], []⟩, .withActive 0 0, .start 0 .default ⟨[], 0, [], []⟩,
        .start 1 .default ⟨[], 0, [], []⟩, .endSpan 1] = some (w, obs) ∧
      w.spans.map (·.ctx.spanId) = [[0,0,0,0,0,0,0,1], [0,0,0,0,0,0,0,2], [0,0,0,0,0,0,0,3]] ∧
      w.spans.map (·.parentSpanId) = [zeroSpanId, [0,0,0,0,0,0,0,1], zeroSpanId] ∧ w.exported = [1] := by
  refine ⟨_, _, rfl, ?_, ?_, ?_⟩ <;> decide

/-- … and the generator hypothesis holds for it (3 span ids, 2 trace ids drawn) -/
example : GoodGen ⟨.alwaysOn, true, fun n => [0,0,0,0,0,0,0,UInt8.ofNat (n + 1)],
    fun n => [0,0,0,0,0,0,0,0,0,0,0,0,0,0,0,UInt8.ofNat (n + 1)]⟩ ⟨3, 2⟩ := by
  constructor
  · intro n hn
    have : n = 0 ∨ n = 1 ∨ n = 2 := by simp only at hn; omega
    rcases this with rfl | rfl | rfl <;> decide
  · intro n hn
    have : n = 0 ∨ n = 1 := by simp only at hn; omega
    rcases this with rfl | rfl <;> decide
  · intro m n hm hn
    have h1 : m = 0 ∨ m = 1 ∨ m = 2 := by simp only at hm; omega
    have h2 : n = 0 ∨ n = 1 ∨ n = 2 := by simp only at hn; omega
    rcases h1 with rfl | rfl | rfl <;> rcases h2 with rfl | rfl | rfl <;> decide
  · intro m n hm hn
    have h1 : m = 0 ∨ m = 1 := by simp only at hm; omega
    have h2 : n = 0 ∨ n = 1 := by simp only at hn; omega
    rcases h1 with rfl | rfl <;> rcases h2 with rfl | rfl <;> decide

end Otel.C05
