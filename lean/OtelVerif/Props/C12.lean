import OtelVerif.Model.Sampler
import OtelVerif.Lemmas.SamplerThr
import OtelVerif.Lemmas.SamplerFl
import OtelVerif.Lemmas.Bytes
/-! # C12 — Sampling is consistent: ratio sampling is a monotone function of the trace id

Property theorems about `Model/Sampler.lean` (which mirrors `sdk/src/trace/samplers/trace_id_ratio.cc`, `parent.cc`,
`always_on.h`, `always_off.h`).  The constants of `CalculateThreshold` come from `Gen/Sampler.lean`, re-extracted from
the source on every run (`gen_constants`).

*Doubles.*  A finite `double` is an exact rational; each C++ floating-point operation is the exact result rounded by
`rnd`.  Everything about the ratio sampler is proved **for every rounding `R : Rnd`** — monotone, and the identity
on integers of magnitude below 2^53 (`Lemmas/SamplerThr.lean`) — and then instantiated with the executable binary64
rounding `fl` of the model, for which both facts are proved (`fl_mono`, `fl_int` in `Lemmas/SamplerFl.lean`).

*NaN.*  `thresholdD .nan = none`: the C++ would evaluate `static_cast<uint64_t>(NaN)`, which is undefined behaviour.
Every theorem about a `Dbl` ratio therefore carries the explicit hypothesis that it is not NaN (it is outside the
quantifier of the property: "every pair of ratios in [0,1] … and out-of-range ratios below 0 and above 1"). -/
namespace Otel.C12
open Otel Otel.Sampler

/-! ## The ratio sampler, generically in the rounding -/

section generic
variable (R : Rnd)

/-- **The threshold never exceeds `UINT64_MAX`.** -/
theorem thresholdWith_le_max (r : ℚ) : thresholdWith R.fl r ≤ 2 ^ 64 - 1 := by
  rcases le_or_gt r 0 with h0 | h0
  · unfold thresholdWith; rw [if_pos h0]; norm_num
  rcases le_or_gt 1 r with h1 | h1
  · unfold thresholdWith; rw [if_neg (not_le.mpr h0), if_pos h1, gen_constants.1]
  · have h := thresholdWith_eq R r h0 h1
    obtain ⟨hp0, hpU⟩ := product_bounds R r h0.le h1.le
    have := (thr_bounds R _ hp0 hpU).2.2.2
    omega

/-- **No wrap-around, no out-of-range conversion**: for a ratio strictly inside `(0,1)`, with `product`, `hi_bits`
    and `lo_bits` as in the C++, both converted values are in range of `uint64_t` (`hi_bits < 2^32`), and the
    threshold is the plain integer `2^32 · ⌊product⌋ + ⌊lo_bits⌋`, below 2^64. -/
theorem thresholdWith_no_wrap (r : ℚ) (h0 : 0 < r) (h1 : r < 1) :
    let product := R.fl ((2 ^ 32 - 1) * r)
    let lo := R.fl (2 ^ 32 * (product - ⌊product⌋) + product)
    0 ≤ ⌊product⌋ ∧ ⌊product⌋ < 2 ^ 32 ∧ 0 ≤ ⌊lo⌋ ∧ ⌊lo⌋ < 2 ^ 64 ∧
    (thresholdWith R.fl r : ℤ) = 2 ^ 32 * ⌊product⌋ + ⌊lo⌋ ∧ thresholdWith R.fl r < 2 ^ 64 := by
  dsimp only
  obtain ⟨hp0, hpU⟩ := product_bounds R r h0.le h1.le
  obtain ⟨hnn, hlt, hlnn, hmax⟩ := thr_bounds R _ hp0 hpU
  have he := thresholdWith_eq R r h0 h1
  unfold thr at hmax he
  refine ⟨hnn, by omega, hlnn, by omega, he, ?_⟩
  have := thresholdWith_le_max R r
  omega

/-- **`CalculateThreshold` is monotone in the ratio** (all finite ratios, in and out of `[0,1]`). -/
theorem thresholdWith_mono {r₁ r₂ : ℚ} (h : r₁ ≤ r₂) : thresholdWith R.fl r₁ ≤ thresholdWith R.fl r₂ := by
  rcases le_or_gt r₁ 0 with h10 | h10
  · have : thresholdWith R.fl r₁ = 0 := by unfold thresholdWith; rw [if_pos h10]
    omega
  rcases le_or_gt 1 r₂ with h21 | h21
  · have : thresholdWith R.fl r₂ = 2 ^ 64 - 1 := by
      unfold thresholdWith; rw [if_neg (not_le.mpr (lt_of_lt_of_le h10 h)), if_pos h21, gen_constants.1]
    have := thresholdWith_le_max R r₁
    omega
  have h20 : 0 < r₂ := lt_of_lt_of_le h10 h
  have h11 : r₁ < 1 := lt_of_le_of_lt h h21
  have e1 := thresholdWith_eq R r₁ h10 h11
  have e2 := thresholdWith_eq R r₂ h20 h21
  have hp : R.fl ((2 ^ 32 - 1) * r₁) ≤ R.fl ((2 ^ 32 - 1) * r₂) := R.mono _ _ (by nlinarith)
  have := thr_mono R _ _ (product_bounds R r₁ h10.le h11.le).1 hp (product_bounds R r₂ h20.le h21.le).2
  omega

/-- the id side: `double(res) / double(UINT64_MAX)` is monotone in the 64-bit prefix -/
theorem idRatioWith_mono {x₁ x₂ : ℕ} (h : x₁ ≤ x₂) : idRatioWith R.fl x₁ ≤ idRatioWith R.fl x₂ := by
  unfold idRatioWith
  apply R.mono
  have hd : (0 : ℚ) < R.fl (Gen.samplerIdDivisor : ℚ) := by
    have h1 := R.mono 1 (Gen.samplerIdDivisor : ℚ) (by rw [gen_constants.2.2.2.2.2]; norm_num)
    have := R.fix_nat 1 (by norm_num)
    simp at this
    rw [this] at h1
    linarith
  exact div_le_div_of_nonneg_right (R.mono _ _ (by exact_mod_cast h)) hd.le

/-- **`CalculateThresholdFromBuffer` is monotone in the little-endian value of the first 8 bytes.** -/
theorem idThresholdWith_mono {id₁ id₂ : Bytes} (h : idPrefix id₁ ≤ idPrefix id₂) :
    idThresholdWith R.fl id₁ ≤ idThresholdWith R.fl id₂ :=
  thresholdWith_mono R (idRatioWith_mono R h)

/-- **Raising the ratio only adds traces** (generic rounding). -/
theorem sample_mono_generic {r₁ r₂ : ℚ} (h : r₁ ≤ r₂) (id : Bytes)
    (hs : ratioShouldSampleWith R.fl (thresholdWith R.fl r₁) id = .recordAndSample) :
    ratioShouldSampleWith R.fl (thresholdWith R.fl r₂) id = .recordAndSample := by
  have hm := thresholdWith_mono R h
  unfold ratioShouldSampleWith at hs ⊢
  by_cases h0 : thresholdWith R.fl r₁ = 0
  · rw [if_pos h0] at hs; cases hs
  · rw [if_neg h0] at hs
    by_cases hle : idThresholdWith R.fl id ≤ thresholdWith R.fl r₁
    · rw [if_neg (by omega), if_pos (le_trans hle hm)]
    · rw [if_neg hle] at hs; cases hs

/-- for one sampler, the decision is antitone in the id prefix: the sampled ids are an initial segment (this is what
    makes "the largest sampled prefix" meaningful) -/
theorem sample_antitone_in_id_generic (thr : ℕ) {id₁ id₂ : Bytes} (h : idPrefix id₁ ≤ idPrefix id₂)
    (hs : ratioShouldSampleWith R.fl thr id₂ = .recordAndSample) :
    ratioShouldSampleWith R.fl thr id₁ = .recordAndSample := by
  have hm := idThresholdWith_mono R h
  unfold ratioShouldSampleWith at hs ⊢
  by_cases h0 : thr = 0
  · rw [if_pos h0] at hs; cases hs
  · rw [if_neg h0] at hs ⊢
    by_cases hle : idThresholdWith R.fl id₂ ≤ thr
    · rw [if_pos (le_trans hm hle)]
    · rw [if_neg hle] at hs; cases hs

end generic

/-! ## The model of the code: `rnd = fl` -/

/-- `r₁ ≤ r₂ → threshold r₁ ≤ threshold r₂` for the thresholds the code computes -/
theorem threshold_mono {r₁ r₂ : ℚ} (h : r₁ ≤ r₂) : threshold r₁ ≤ threshold r₂ :=
  thresholdWith_mono flRnd h

theorem threshold_lt_two_pow_64 (r : ℚ) : threshold r < 2 ^ 64 := by
  have := thresholdWith_le_max flRnd r
  unfold threshold
  rw [flRnd_fl] at this
  omega

/-- the two `static_cast<uint64_t>`, the shift and the addition of `CalculateThreshold` never leave `[0, 2^64)` -/
theorem threshold_no_wrap (r : ℚ) (h0 : 0 < r) (h1 : r < 1) :
    let product := fl ((2 ^ 32 - 1) * r)
    let lo := fl (2 ^ 32 * (product - ⌊product⌋) + product)
    0 ≤ ⌊product⌋ ∧ ⌊product⌋ < 2 ^ 32 ∧ 0 ≤ ⌊lo⌋ ∧ ⌊lo⌋ < 2 ^ 64 ∧
    (threshold r : ℤ) = 2 ^ 32 * ⌊product⌋ + ⌊lo⌋ ∧ threshold r < 2 ^ 64 :=
  thresholdWith_no_wrap flRnd r h0 h1

/-- order on the non-NaN doubles -/
def Dbl.le : Dbl → Dbl → Prop
  | .nan, _ => False
  | _, .nan => False
  | .ninf, _ => True
  | _, .pinf => True
  | .fin a, .fin b => a ≤ b
  | .fin _, .ninf => False
  | .pinf, .fin _ => False
  | .pinf, .ninf => False

/-- **threshold monotone over all non-NaN doubles**, infinities included (`Dbl.le` is false as soon as one side is NaN) -/
theorem thresholdD_mono {d₁ d₂ : Dbl} (h : Dbl.le d₁ d₂) :
    ∃ t₁ t₂, thresholdD d₁ = some t₁ ∧ thresholdD d₂ = some t₂ ∧ t₁ ≤ t₂ := by
  cases d₁ <;> cases d₂ <;> simp only [Dbl.le] at h <;> simp only [thresholdD]
  case fin.fin a b => exact ⟨_, _, rfl, rfl, threshold_mono h⟩
  case fin.pinf a =>
    refine ⟨_, _, rfl, rfl, ?_⟩
    have := threshold_lt_two_pow_64 a
    rw [gen_constants.1]; omega
  all_goals first | exact ⟨_, _, rfl, rfl, Nat.zero_le _⟩ | exact ⟨_, _, rfl, rfl, le_refl _⟩

/-- the decision of a ratio sampler, as the property talks about it -/
def sampled (thr : ℕ) (a : Args) : Prop := (shouldSample (.ratio thr) a).decision = .recordAndSample

theorem sampled_iff (thr : ℕ) (a : Args) :
    sampled thr a ↔ ratioShouldSampleWith fl thr a.traceId = .recordAndSample := by
  unfold sampled shouldSample shouldSampleWith; rfl

/-- a ratio sampler never answers anything but DROP or RECORD_AND_SAMPLE, with a null trace state -/
theorem ratio_result_shape (thr : ℕ) (a : Args) :
    (shouldSample (.ratio thr) a).traceState = none ∧
    ((shouldSample (.ratio thr) a).decision = .drop ∨ (shouldSample (.ratio thr) a).decision = .recordAndSample) := by
  unfold shouldSample shouldSampleWith ratioShouldSampleWith
  refine ⟨rfl, ?_⟩
  dsimp only
  split_ifs <;> simp

/-- **Any trace sampled at a ratio is also sampled at every larger ratio** — for all finite ratios, adjacent doubles,
    subnormals and out-of-range values alike, every trace id and whatever the other arguments are on either side. -/
theorem sample_mono {r₁ r₂ : ℚ} (h : r₁ ≤ r₂) (a a' : Args) (hid : a.traceId = a'.traceId)
    (hs : sampled (threshold r₁) a) : sampled (threshold r₂) a' := by
  rw [sampled_iff] at hs ⊢
  rw [← hid]
  exact sample_mono_generic flRnd h a.traceId hs

/-- the same over doubles including ±∞ -/
theorem sample_monoD {d₁ d₂ : Dbl} (h : Dbl.le d₁ d₂) (a : Args) :
    ∃ t₁ t₂, thresholdD d₁ = some t₁ ∧ thresholdD d₂ = some t₂ ∧ (sampled t₁ a → sampled t₂ a) := by
  obtain ⟨t₁, t₂, h1, h2, hle⟩ := thresholdD_mono h
  refine ⟨t₁, t₂, h1, h2, fun hs => ?_⟩
  rw [sampled_iff] at hs ⊢
  unfold ratioShouldSampleWith at hs ⊢
  by_cases h0 : t₁ = 0
  · rw [if_pos h0] at hs; cases hs
  · rw [if_neg h0] at hs
    by_cases hc : idThresholdWith fl a.traceId ≤ t₁
    · rw [if_neg (by omega), if_pos (le_trans hc hle)]
    · rw [if_neg hc] at hs; cases hs

/-- **ratio ≤ 0 samples nothing** (−0.0 and −∞ included: `Dbl.ofBits` maps −0.0 to `fin 0`) -/
theorem ratio_le_zero_never {r : ℚ} (h : r ≤ 0) (a : Args) :
    (shouldSample (.ratio (threshold r)) a).decision = .drop ∧
    (shouldSample (.ratio 0) a).decision = .drop ∧ thresholdD .ninf = some 0 ∧ threshold r = 0 := by
  have ht : threshold r = 0 := by unfold threshold thresholdWith; rw [if_pos h]
  rw [ht]
  unfold shouldSample shouldSampleWith ratioShouldSampleWith
  simp [thresholdD]

/-- **ratio ≥ 1 samples everything** (+∞ included) -/
theorem ratio_ge_one_always {r : ℚ} (h : 1 ≤ r) (a : Args) :
    (shouldSample (.ratio (threshold r)) a).decision = .recordAndSample ∧
    threshold r = 2 ^ 64 - 1 ∧ thresholdD .pinf = some (2 ^ 64 - 1) ∧
    (shouldSample (.ratio (2 ^ 64 - 1)) a).decision = .recordAndSample := by
  have ht : threshold r = 2 ^ 64 - 1 := by
    unfold threshold thresholdWith
    rw [if_neg (by linarith), if_pos h, gen_constants.1]
  have hs : (shouldSample (.ratio (2 ^ 64 - 1)) a).decision = .recordAndSample := by
    unfold shouldSample shouldSampleWith ratioShouldSampleWith
    have hle : idThresholdWith fl a.traceId ≤ 2 ^ 64 - 1 := thresholdWith_le_max flRnd _
    dsimp only
    rw [if_neg (by norm_num), if_pos hle]
  rw [ht]
  refine ⟨hs, rfl, ?_, hs⟩
  simp [thresholdD, gen_constants.1]

/-- **The decision depends only on the trace id (indeed only on its first 8 bytes) and the configured ratio**: the
    parent context, name, kind, attributes and links are irrelevant, and so is the rest of the id. -/
theorem decision_depends_only_on_id_and_ratio (thr : ℕ) (a a' : Args)
    (h : a.traceId.take 8 = a'.traceId.take 8) :
    shouldSample (.ratio thr) a = shouldSample (.ratio thr) a' := by
  unfold shouldSample shouldSampleWith ratioShouldSampleWith idThresholdWith idPrefix
  rw [gen_constants.2.2.2.2.1, h]

/-- **All participants in a trace agree**: two samplers built from the same ratio, asked about the same trace id with
    whatever other arguments, give the same result. -/
theorem participants_agree (d : Dbl) (s s' : Sampler.Sampler) (hs : mkRatio d = some s) (hs' : mkRatio d = some s')
    (a a' : Args) (h : a.traceId = a'.traceId) : shouldSample s a = shouldSample s' a' := by
  unfold mkRatio at hs hs'
  cases ht : thresholdD d with
  | none => rw [ht] at hs; cases hs
  | some t =>
    rw [ht] at hs hs'
    cases hs; cases hs'
    exact decision_depends_only_on_id_and_ratio t a a' (by rw [h])

/-- the sampled ids of one sampler are an initial segment in the little-endian value of the first 8 bytes -/
theorem sample_antitone_in_id (thr : ℕ) (a a' : Args) (h : idPrefix a.traceId ≤ idPrefix a'.traceId)
    (hs : sampled thr a') : sampled thr a := by
  rw [sampled_iff] at hs ⊢
  exact sample_antitone_in_id_generic flRnd thr h hs

/-! ## Parent-based, always-on, always-off (for every rounding: they do not compute) -/

/-- the W3C sampled bit of a flags byte, as the property says it ("the parent's sampled decision") -/
theorem isSampled_iff_bit0 (c : SpanContext) : c.isSampled = true ↔ c.flags &&& 1 = 1 := by
  unfold SpanContext.isSampled
  have : ∀ b : UInt8, (b.toNat % 2 == 1) = true ↔ b &&& 1 = 1 := forall_byte _ (by decide +kernel)
  exact this c.flags

/-- **A span with a valid parent gets exactly the parent's sampled decision and the parent's trace state** — for
    every root sampler, every flags byte, remote or local parent (`remote` does not occur on the right-hand side). -/
theorem parentBased_valid_parent (rnd : ℚ → ℚ) (root : Sampler.Sampler) (a : Args) (hv : a.parent.isValid = true) :
    shouldSampleWith rnd (.parentBased root) a =
      ⟨if a.parent.flags &&& 1 = 1 then .recordAndSample else .drop, some a.parent.traceState⟩ := by
  unfold shouldSampleWith
  simp only [hv, Bool.not_true]
  by_cases hs : a.parent.isSampled = true
  · simp [hs, (isSampled_iff_bit0 a.parent).mp hs]
  · have : ¬ a.parent.flags &&& 1 = 1 := fun h => hs ((isSampled_iff_bit0 a.parent).mpr h)
    simp [hs, this]

/-- … and the root sampler is not even consulted then -/
theorem parentBased_valid_parent_no_consult (root : Sampler.Sampler) (a : Args) (hv : a.parent.isValid = true) :
    consults (.parentBased root) a = 0 := by
  unfold consults; simp [hv]

/-- **Without a valid parent the root sampler decides** (zero trace id or zero span id, whatever the flags say) -/
theorem parentBased_root_delegates (rnd : ℚ → ℚ) (root : Sampler.Sampler) (a : Args) (hv : a.parent.isValid = false) :
    shouldSampleWith rnd (.parentBased root) a = shouldSampleWith rnd root a := by
  conv_lhs => unfold shouldSampleWith
  simp [hv]

theorem parentBased_root_consults (root : Sampler.Sampler) (a : Args) (hv : a.parent.isValid = false) :
    consults (.parentBased root) a = consults root a := by
  conv_lhs => unfold consults
  simp [hv]

/-- **always-on is constant** -/
theorem alwaysOn_constant (rnd : ℚ → ℚ) (a : Args) : (shouldSampleWith rnd .alwaysOn a).decision = .recordAndSample := by
  unfold shouldSampleWith; rfl

/-- **always-off is constant** -/
theorem alwaysOff_constant (rnd : ℚ → ℚ) (a : Args) : (shouldSampleWith rnd .alwaysOff a).decision = .drop := by
  unfold shouldSampleWith; rfl

/-! ## Spans started through a tracer (`Tracer::StartSpan`): the sampled flag is the sampler's decision -/

/-- a valid parent given in any way but "explicit root" is the parent the sampler is asked about -/
theorem effectiveParent_valid (via : ParentVia) (p : SpanContext) (hr : via ≠ .root) (hv : p.isValid = true) :
    effectiveParent via p = p := by
  cases via <;> simp_all [effectiveParent]

/-- an explicit root, or a parent that is not valid, leaves the span without a valid parent -/
theorem effectiveParent_invalid (via : ParentVia) (p : SpanContext) (h : via = .root ∨ p.isValid = false) :
    (effectiveParent via p).isValid = false := by
  have hinv : SpanContext.invalid.isValid = false := by decide
  rcases h with h | h
  · subst h; exact hinv
  · cases via <;> simp [effectiveParent, h, hinv]

/-- **A span with a valid parent, started under a parent-based sampler, gets exactly the parent's sampled decision and
    the parent's trace state** (and joins the parent's trace; the root sampler is not consulted) — however the parent
    is supplied, remote or local, any flags byte. -/
theorem span_parentBased_valid_parent (rnd : ℚ → ℚ) (root : Sampler.Sampler) (via : ParentVia) (p : SpanContext)
    (g : Bytes) (hr : via ≠ .root) (hv : p.isValid = true) :
    let st := sampleSpanWith rnd (.parentBased root) via p g
    st.sampled = decide (p.flags &&& 1 = 1) ∧ st.traceState = p.traceState ∧ st.traceId = p.traceId ∧ st.consulted = 0 := by
  have he := effectiveParent_valid via p hr hv
  have hres := parentBased_valid_parent rnd root ⟨p, p.traceId, [], 0, [], []⟩ hv
  have hc := parentBased_valid_parent_no_consult root ⟨p, p.traceId, [], 0, [], []⟩ hv
  simp only [sampleSpanWith, he, hv, if_true, hres, hc]
  refine ⟨?_, trivial, trivial, trivial⟩
  by_cases hb : p.flags &&& 1 = 1 <;> simp [hb, Result.isSampled]

/-- **Without a valid parent the span is the root sampler's**: same flag, same trace state, same trace id, and the
    root sampler is consulted exactly as if it were the tracer's sampler. -/
theorem span_root_delegates (rnd : ℚ → ℚ) (root : Sampler.Sampler) (via : ParentVia) (p : SpanContext) (g : Bytes)
    (h : via = .root ∨ p.isValid = false) :
    let st := sampleSpanWith rnd (.parentBased root) via p g
    let st' := sampleSpanWith rnd root via p g
    st.sampled = st'.sampled ∧ st.recording = st'.recording ∧ st.traceState = st'.traceState ∧
      st.traceId = st'.traceId ∧ st.consulted = st'.consulted := by
  have hi := effectiveParent_invalid via p h
  have hres := parentBased_root_delegates rnd root ⟨effectiveParent via p, g, [], 0, [], []⟩ hi
  have hc := parentBased_root_consults root ⟨effectiveParent via p, g, [], 0, [], []⟩ hi
  simp only [sampleSpanWith, hi, Bool.false_eq_true, if_false, hres, hc]
  exact ⟨trivial, trivial, trivial, trivial, trivial⟩

/-- **All participants in a trace agree, at the level of spans**: under samplers built from the same ratio, two spans of
    the same trace (whatever their parents and the way these were supplied) carry the same sampled flag. -/
theorem span_participants_agree (d : Dbl) (s s' : Sampler.Sampler) (hs : mkRatio d = some s) (hs' : mkRatio d = some s')
    (via via' : ParentVia) (p p' : SpanContext) (g g' : Bytes)
    (h : (sampleSpan s via p g).traceId = (sampleSpan s' via' p' g').traceId) :
    (sampleSpan s via p g).sampled = (sampleSpan s' via' p' g').sampled := by
  have key := participants_agree d s s' hs hs'
    ⟨effectiveParent via p, (sampleSpan s via p g).traceId, [], 0, [], []⟩
    ⟨effectiveParent via' p', (sampleSpan s' via' p' g').traceId, [], 0, [], []⟩ h
  simp only [sampleSpan, sampleSpanWith, shouldSample] at key h ⊢
  rw [key]

/-- the flag of an always-on / always-off tracer is constant -/
theorem span_alwaysOn_sampled (rnd : ℚ → ℚ) (via : ParentVia) (p : SpanContext) (g : Bytes) :
    (sampleSpanWith rnd .alwaysOn via p g).sampled = true := by
  simp [sampleSpanWith, shouldSampleWith, Result.isSampled]

theorem span_alwaysOff_not_sampled (rnd : ℚ → ℚ) (via : ParentVia) (p : SpanContext) (g : Bytes) :
    (sampleSpanWith rnd .alwaysOff via p g).sampled = false ∧ (sampleSpanWith rnd .alwaysOff via p g).recording = false := by
  simp [sampleSpanWith, shouldSampleWith, Result.isSampled, Result.isRecording]

/-! ## The hypotheses are satisfiable; concrete values through the executable model -/

/-- an unsampled remote parent given as the active span under `ParentBased(AlwaysOn)`: not sampled, parent's trace -/
example : (sampleSpan (.parentBased .alwaysOn) .active
    ⟨[1,0,0,0,0,0,0,0,0,0,0,0,0,0,0,0], [1,0,0,0,0,0,0,0], 0xfe, true, [([107], [118])]⟩ (List.replicate 16 9)).sampled = false := by
  decide +kernel
/-- … the same span context under an explicit root: the root sampler decides, on the generated trace id -/
example : (sampleSpan (.parentBased .alwaysOn) .root
    ⟨[1,0,0,0,0,0,0,0,0,0,0,0,0,0,0,0], [1,0,0,0,0,0,0,0], 0xfe, true, [([107], [118])]⟩ (List.replicate 16 9)).traceId
      = List.replicate 16 9 := by
  decide +kernel

/-- 0.5 and its successor double as exact rationals -/
example : Dbl.ofBits 0x3fe0000000000000 = .fin (1 / 2) := by decide +kernel
example : threshold (1 / 2) = 0x7fffffffffffffff := by decide +kernel
/-- −0.0 is the rational 0 (so it is covered by `ratio_le_zero_never`); the smallest subnormal has threshold 0;
    the largest double below 1 has threshold 2^64 − 2^11 − 1 -/
example : Dbl.ofBits 0x8000000000000000 = .fin 0 := by decide +kernel
example : thresholdD (Dbl.ofBits 1) = some 0 := by decide +kernel
example : thresholdD (Dbl.ofBits 0x3fefffffffffffff) = some 0xfffffffffffff7ff := by decide +kernel
example : Dbl.le (.fin (1 - 1 / 2 ^ 53)) (.fin 1) := by show (1 - 1 / 2 ^ 53 : ℚ) ≤ 1; norm_num
/-- a valid sampled remote parent under `ParentBased(AlwaysOff)`: sampled, parent's trace state -/
example : shouldSample (.parentBased .alwaysOff)
    ⟨⟨[1,0,0,0,0,0,0,0,0,0,0,0,0,0,0,0], [1,0,0,0,0,0,0,0], 0xff, true, [([107], [118])]⟩, [], [], 0, [], []⟩
    = ⟨.recordAndSample, some [([107], [118])]⟩ := by decide +kernel
/-- an id sampled at 1/2 (prefix 0) and one that is not (prefix 2^64-1) -/
example : sampled (threshold (1 / 2)) ⟨SpanContext.invalid, List.replicate 16 0, [], 0, [], []⟩ := by
  unfold sampled; decide +kernel
example : ¬ sampled (threshold (1 / 2)) ⟨SpanContext.invalid, List.replicate 16 255, [], 0, [], []⟩ := by
  unfold sampled; decide +kernel

end Otel.C12
