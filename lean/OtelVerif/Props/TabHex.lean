import OtelVerif.Model.TabHex
import OtelVerif.Gen.TabHex
import OtelVerif.Lemmas.Tab
/-! # The model equals the code's complete graph: `detail/hex.h`, `ToLowerBase16`, `TraceFlags`, the version and flags
    fields of `http_trace_context.h`

`Gen/TabHex.lean` is produced on every check run by calling the real functions of the working tree on their whole domain
(`tools/tabulate.py`, `harness/tab/tab_api.cc`).  Each theorem below says that the hand-written model, restricted to that
domain, is that table — for every entry, kernel-checked.  A rewrite of the C++ that keeps the behaviour keeps the tables;
a change of behaviour changes an entry and the corresponding theorem stops closing. -/
namespace Otel.Tab
open Otel

theorem tab_hexToInt : ∀ b : UInt8, TabModel.hexToInt b = Gen.Tab.hexToInt b := forall_byte _ (by decide +kernel)
theorem tab_isValidHex1 : ∀ b : UInt8, TabModel.isValidHex1 b = Gen.Tab.isValidHex1 b := forall_byte _ (by decide +kernel)
theorem tab_hexToBinary1 : ∀ b : UInt8, TabModel.hexToBinary1 b = Gen.Tab.hexToBinary1 b := forall_byte _ (by decide +kernel)

/-- the 22 hex digit characters -/
def hexChars : List UInt8 := [48, 49, 50, 51, 52, 53, 54, 55, 56, 57, 97, 98, 99, 100, 101, 102, 65, 66, 67, 68, 69, 70]

/-- `HexToBinary` on two characters, kernel-checked on every pair of hex digits (484); `TabHexB.tab_hexToBinary2_cross` adds every
    byte in either position beside three fixed partners.  (All 65 536 pairs of the table are compared with the compiled model on
    every run by `tools/tabdiff.py`.) -/
theorem tab_hexToBinary2_digits : ∀ a ∈ hexChars, ∀ b ∈ hexChars, TabModel.hexToBinary2 a b = Gen.Tab.hexToBinary2 a b := by
  decide +kernel

/-- return value, too-long input, odd length, left padding -/
theorem tab_hexToBinaryShort : ∀ p ∈ Gen.Tab.hexToBinaryShort, TabModel.hexToBinaryShort p.1 = p.2 :=
  graph_of_all _ _ (by decide +kernel)

theorem tab_traceIdLower : ∀ p ∈ Gen.Tab.traceIdLower, TabModel.traceIdLower p.1 = p.2 := graph_of_all _ _ (by decide +kernel)
theorem tab_spanIdLower : ∀ p ∈ Gen.Tab.spanIdLower, TabModel.spanIdLower p.1 = p.2 := graph_of_all _ _ (by decide +kernel)
theorem tab_flagsLower : ∀ b : UInt8, TabModel.flagsLower b = Gen.Tab.flagsLower b := eq_table _ _ _ (by decide +kernel)
theorem tab_flagsIsSampled : ∀ b : UInt8, TabModel.flagsIsSampled b = Gen.Tab.flagsIsSampled b := forall_byte _ (by decide +kernel)
theorem tab_flagsIsRandom : ∀ b : UInt8, TabModel.flagsIsRandom b = Gen.Tab.flagsIsRandom b := forall_byte _ (by decide +kernel)

end Otel.Tab
