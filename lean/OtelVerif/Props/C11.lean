import OtelVerif.Lemmas.Ring.Main
import OtelVerif.Model.RingFine
import OtelVerif.Model.SpinLock
