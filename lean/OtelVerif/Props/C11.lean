import OtelVerif.Lemmas.Ring.Fine
import OtelVerif.Lemmas.SpinLock
import OtelVerif.Lemmas.Pigeon
import OtelVerif.Gen.Ring
/-! # C11 — The lock-free queue and spin lock are correct under every interleaving

Theorems about `Model/Ring.lean` (`CircularBuffer` + `AtomicUniquePtr`, one action per atomic access, sequentially
consistent, **any number of producers, any capacity ≥ 1, every schedule, spurious weak-CAS failures included**),
`Model/RingFine.lean` (the same system driven as the harness drives the real code, the consumer's loads included) and
`Model/SpinLock.lean`.  `cap = capacity_ = max_size + 1`.  A schedule is a `List Act`; `run` returns `none` when an
action is not enabled, so `run (init cap) as = some s` says "`s` is reachable by the schedule `as`". -/
namespace Otel.C11
open Otel Otel.Ring

/-- the generated constants are the ones the model hard-wires -/
theorem gen_ring : Gen.ringCapacitySlack = 1 ∧ Gen.ringFullSlack = 1 := by decide

variable {cap : Nat} (hc : 2 ≤ cap) {as : List Act} {s : St} (h : run (init cap) as = some s)
include hc h

/-! ## Every element whose Add reported success is consumed at most once, in commit order -/

/-- what the consumer has taken out is exactly the first `clr` committed elements, in commit order -/
theorem consumed_is_log_prefix : s.out = s.log.take s.clr := (reachable_inv cap hc as s h).1.outEq

/-- the commit log (elements whose `Add` returned true, in the order of their head CAS) has no duplicates … -/
theorem log_nodup : s.log.Nodup := (reachable_inv cap hc as s h).2.logNodup

/-- … hence **nothing is consumed twice** -/
theorem consumed_at_most_once : s.out.Nodup := by
  rw [consumed_is_log_prefix hc h]
  exact List.Sublist.nodup (List.take_sublist _ _) (log_nodup hc h)

/-- **at least once**: when the consumer has cleared everything that was committed (`clr = head`, e.g. at quiescence
    after a final `Consume(size())`), every accepted element has been consumed -/
theorem drained_all (hq : s.clr = s.head) : s.out = s.log := by
  rw [consumed_is_log_prefix hc h, hq, ← (reachable_inv cap hc as s h).1.logLen, List.take_length]

/-- the consumer never exchanges out an empty slot -/
theorem no_empty_slot_consumed {s' : St} (h' : step s .cClear = some s') : s.slots (s.clr % s.cap) ≠ none :=
  never_consumes_empty cap hc as s s' h h'

/-! ## In each producer's own order -/

/-- element ids are handed out in call order (`pStart` takes `nextId`), so "producer `p`'s call order" is increasing id;
    the committed elements of one producer appear in the log — hence in the consumer's output — in that order -/
theorem per_producer_fifo (p : Nat) : (s.out.filter (fun e => s.own e == p)).Pairwise (· < ·) := by
  rw [consumed_is_log_prefix hc h]
  exact List.Pairwise.sublist (List.Sublist.filter _ (List.take_sublist _ _)) ((reachable_inv cap hc as s h).2.ownSorted p)

/-! ## An Add that reports failure leaves its element with the caller -/

/-- a failed element is never committed, never consumed … -/
theorem failed_not_accepted (e : Nat) (he : e ∈ s.fails) : e ∉ s.log ∧ e ∉ s.out := by
  have hl := ((reachable_inv cap hc as s h).2.failsOk e he).2
  refine ⟨hl, fun ho => hl ?_⟩
  rw [consumed_is_log_prefix hc h] at ho
  exact List.mem_of_mem_take ho

/-- … and is not left behind in any slot of the buffer (so it is still the caller's: no leak, no double free) -/
theorem failed_not_in_buffer (e : Nat) (he : e ∈ s.fails) (k : Nat) : s.slots k ≠ some e := by
  obtain ⟨hI, h2⟩ := reachable_inv cap hc as s h
  intro hk
  rcases hI.slotOwn k e hk with ⟨i, hi1, hi2, hik⟩ | ⟨p, hp, hpe⟩
  · have := hI.commit i hi1 hi2
    rw [hik, hk] at this
    have hmem : e ∈ s.log := List.mem_of_getElem? this.symm
    exact (h2.failsOk e he).2 hmem
  · obtain ⟨hh, hpc, _⟩ := hp
    have hne : pcOf s p ≠ .idle := by rcases hpc with hpc | hpc <;> (rw [hpc]; simp)
    exact (h2.flight p hne).2.2.1 (hpe ▸ he)

/-- **ownership accounting**: every element ever handed to `Add` is in exactly one of three places — returned to the
    caller (`fails`), still in flight in its producer's hands or tentatively in a slot (`pc ≠ idle`), or committed
    (`log`: in its slot until cleared, then in the consumer's output) -/
theorem element_accounting (e : Nat) (he : e < s.nextId) :
    (e ∈ s.log ∨ e ∈ s.fails ∨ ∃ p, pcOf s p ≠ .idle ∧ elOf s p = e) ∧
    ¬ (e ∈ s.log ∧ e ∈ s.fails) ∧
    (∀ p, pcOf s p ≠ .idle → elOf s p = e → e ∉ s.log ∧ e ∉ s.fails) ∧
    (∀ p q, pcOf s p ≠ .idle → pcOf s q ≠ .idle → elOf s p = e → elOf s q = e → p = q) := by
  obtain ⟨_, h2⟩ := reachable_inv cap hc as s h
  refine ⟨h2.cover e he, fun ⟨a, b⟩ => (h2.failsOk e b).2 a, ?_, ?_⟩
  · intro p hp hpe
    exact ⟨hpe ▸ (h2.flight p hp).2.1, hpe ▸ (h2.flight p hp).2.2.1⟩
  · intro p q hp hq hpe hqe
    by_cases hpq : p = q
    · exact hpq
    · exact absurd (hpe.trans hqe.symm) (h2.distinct p q hpq hp hq)

/-! ## The number of queued elements never exceeds the capacity -/

theorem size_le_capacity : s.head - s.tail ≤ cap - 1 := size_le_max cap hc as s h

/-! ## Add fails only when full -/

/-- **Failure justification.**  If producer `p`'s `Add` is about to return false (it is at its `head_` load and the full
    test `head - tail ≥ capacity_ - 1` succeeds on the values it read), then the number of `Add` calls begun before this
    return, itself excluded (`nextId - 1`), minus the number of elements consumed before it began (`c0`), is at least
    `max_size = cap - 1`. -/
theorem add_fails_only_when_full (p t : Nat) (hpc : pcOf s p = .ldHead t) (hfull : s.head - t ≥ s.cap - 1) :
    (s.nextId - 1) - c0Of s p ≥ cap - 1 := by
  obtain ⟨hI, h2⟩ := reachable_inv cap hc as s h
  have hcap : s.cap = cap := cap_run _ _ as h
  have hne : pcOf s p ≠ .idle := by rw [hpc]; simp
  obtain ⟨f1, f2, _, _, _⟩ := h2.flight p hne
  have hc0 := h2.ldHeadC0 p t hpc
  -- the committed elements are distinct ids below nextId, none of them this Add's element
  have hlen : s.log.length < s.nextId := nodup_length_lt s.log s.nextId (elOf s p) h2.logNodup h2.logLt f1 f2
  have := hI.logLen
  omega

/-- the step itself: after it, the element is in `fails` and the producer is idle again -/
theorem fail_step_records (p t : Nat) (hpc : pcOf s p = .ldHead t) (hfull : s.head - t ≥ s.cap - 1) :
    ∃ s', step s (.pLdHead p) = some s' ∧ s'.fails = elOf s p :: s.fails ∧ pcOf s' p = .idle ∧ s'.slots = s.slots := by
  refine ⟨{ s with prods := setPc s p .idle, fails := (s.prods p).elem :: s.fails }, ?_, rfl, ?_, rfl⟩
  · have : (s.prods p).pc = .ldHead t := hpc
    simp only [step, this, hfull, if_true, elOf]
  · simp [pcOf, setPc]

omit hc h

/-! ## The fine-grained system the harness steps (consumer loads included) -/

/-- every state reachable by any schedule of thread steps satisfies the ring invariants, and `Consume`'s contract
    `n ≤ head_ - tail_` holds whenever the consumer advances `tail_` -/
theorem fine_reachable {maxSize nprod adds creq rounds : Nat} (hm : 1 ≤ maxSize) {s : RingFine.St}
    (hr : RingFine.Reach maxSize nprod adds creq rounds s) :
    Ring.Inv s.r ∧ Ring.Inv2 s.r ∧ s.r.out = s.r.log.take s.r.clr ∧ s.r.head - s.r.tail ≤ s.r.cap - 1 := by
  obtain ⟨h1, h2, _⟩ := RingFine.reach_finv hm hr
  exact ⟨h1, h2, h1.outEq, h1.sizeLe⟩

theorem fine_consume_contract {maxSize nprod adds creq rounds : Nat} (hm : 1 ≤ maxSize) {s : RingFine.St}
    (hr : RingFine.Reach maxSize nprod adds creq rounds s) (n : Nat) (hcpc : s.cpc = .adv n) :
    s.r.clr = s.r.tail ∧ n ≤ s.r.head - s.r.tail ∧ (Ring.step s.r (.cTake n)).isSome = true :=
  RingFine.consume_contract hm hr n hcpc

/-! ## Spin lock -/

open Otel.SpinLock in
/-- **at most one holder at a time**, in every reachable state of every schedule with any number of threads -/
theorem mutual_exclusion (acts : List SpinLock.Act) (s : SpinLock.St) (h : SpinLock.run SpinLock.init acts = some s)
    (p q : Nat) (hp : Holds s p) (hq : Holds s q) : p = q :=
  (SpinLock.inv_run _ _ acts SpinLock.inv_init h).unique p q hp hq

open Otel.SpinLock in
/-- a thread in the critical section ⇒ the flag is set -/
theorem holder_sets_flag (acts : List SpinLock.Act) (s : SpinLock.St) (h : SpinLock.run SpinLock.init acts = some s)
    (p : Nat) (hp : Holds s p) : s.flag = true :=
  (SpinLock.inv_run _ _ acts SpinLock.inv_init h).heldFlag p hp

open Otel.SpinLock in
/-- `try_lock` succeeds only on a free lock: its result is the negation of what it read -/
theorem tryLock_sound (acts : List SpinLock.Act) (s : SpinLock.St) (h : SpinLock.run SpinLock.init acts = some s)
    (p : Nat) (read res : Bool) (hx : (p, read, res) ∈ s.tryResults) : res = !read :=
  (SpinLock.inv_run _ _ acts SpinLock.inv_init h).trySound _ hx

open Otel.SpinLock in
/-- with the flag set, no step takes a thread into the critical section -/
theorem no_entry_when_locked (s s' : SpinLock.St) (a : SpinLock.Act) (p : Nat) (h : SpinLock.step s a = some s')
    (hf : s.flag = true) (hafter : Holds s' p) : Holds s p := by
  cases a with
  | beginLock q =>
    simp only [SpinLock.step] at h
    split at h
    · cases h
      by_cases hq : p = q
      · subst hq; simp [Holds, SpinLock.setPc] at hafter
      · simpa [Holds, SpinLock.setPc, Ring.upd_other _ _ _ _ hq] using hafter
    · cases h
  | beginTry q =>
    simp only [SpinLock.step] at h
    split at h
    · cases h
      by_cases hq : p = q
      · subst hq; simp [Holds, SpinLock.setPc] at hafter
      · simpa [Holds, SpinLock.setPc, Ring.upd_other _ _ _ _ hq] using hafter
    · cases h
  | leave q =>
    simp only [SpinLock.step] at h
    split at h
    · rename_i hpc
      cases h
      by_cases hq : p = q
      · subst hq; exact Or.inl hpc
      · simpa [Holds, SpinLock.setPc, Ring.upd_other _ _ _ _ hq] using hafter
    · cases h
  | step q =>
    simp only [SpinLock.step] at h
    split at h
    all_goals (try simp only [hf, if_true] at h)
    all_goals (first | cases h | skip)
    all_goals (
      by_cases hq : p = q
      · subst hq
        first
        | (rename_i hpc; exact Or.inr hpc)
        | (exfalso
           simp only [Holds, SpinLock.setPc, Ring.upd_same, SpinLock.afterSpinFail] at hafter
           first
           | (rcases hafter with hafter | hafter <;> (split at hafter <;> cases hafter))
           | (rcases hafter with hafter | hafter <;> cases hafter))
      · simpa [Holds, SpinLock.setPc, Ring.upd_other _ _ _ _ hq] using hafter)

open Otel.SpinLock in
/-- any step that takes a thread into the critical section read the flag as free -/
theorem acquire_only_when_free (s s' : SpinLock.St) (a : SpinLock.Act) (p : Nat) (h : SpinLock.step s a = some s')
    (hbefore : ¬ Holds s p) (hafter : Holds s' p) : s.flag = false := by
  cases hf : s.flag with
  | false => rfl
  | true => exact absurd (no_entry_when_locked s s' a p h hf hafter) hbefore

open Otel.SpinLock in
/-- the pcs of a thread inside `lock()` -/
def InLock : SpinLock.Pc → Prop
  | .lockXchg | .spinLoad _ | .spinXchg _ | .yielding | .yLoad | .yXchg | .sleeping => True
  | _ => False

open Otel.SpinLock in
/-- **solo progress**: from any state in which the lock is free, a thread inside `lock()` that runs alone acquires the
    lock within 3 of its own steps (`lock()` returns once the holder has unlocked, unless others keep overtaking it —
    starvation freedom under an adversarial scheduler is not a property of a test-and-set lock and is not claimed) -/
theorem lock_solo_progress (s : SpinLock.St) (p : Nat) (hfree : s.flag = false) (hin : InLock (s.pcs p)) :
    ∃ n, n ≤ 3 ∧ ∃ s', SpinLock.run s (List.replicate n (.step p)) = some s' ∧ s'.pcs p = .holding := by
  cases hpc : s.pcs p <;> rw [hpc] at hin <;> simp only [InLock] at hin
  · refine ⟨1, by omega, ?_⟩; simp [List.replicate, SpinLock.run, SpinLock.step, hpc, hfree, SpinLock.setPc]
  · refine ⟨2, by omega, ?_⟩; simp [List.replicate, SpinLock.run, SpinLock.step, hpc, hfree, SpinLock.setPc]
  · refine ⟨1, by omega, ?_⟩; simp [List.replicate, SpinLock.run, SpinLock.step, hpc, hfree, SpinLock.setPc]
  · refine ⟨3, by omega, ?_⟩; simp [List.replicate, SpinLock.run, SpinLock.step, hpc, hfree, SpinLock.setPc]
  · refine ⟨2, by omega, ?_⟩; simp [List.replicate, SpinLock.run, SpinLock.step, hpc, hfree, SpinLock.setPc]
  · refine ⟨1, by omega, ?_⟩; simp [List.replicate, SpinLock.run, SpinLock.step, hpc, hfree, SpinLock.setPc]
  · refine ⟨2, by omega, ?_⟩; simp [List.replicate, SpinLock.run, SpinLock.step, hpc, hfree, SpinLock.setPc]

/-! ## Non-vacuity: concrete schedules reaching interesting states -/

/-- two producers race for slot 0; producer 1 loses the slot CAS, producer 0 commits; the consumer takes one element -/
def demo : List Act :=
  [.pStart 0, .pStart 1, .pLdTail 0, .pLdTail 1, .pLdHead 0, .pLdHead 1, .pSwap 0 false, .pSwap 1 false,
   .pCas 0 false, .cTake 1, .cClear]

example : (run (init 2) demo).map (fun s => (s.out, s.log, s.head, s.tail, s.clr)) = some ([0], [0], 1, 1, 1) := by decide
/-- a failing Add is reachable: capacity 1 (cap 2), second Add finds the buffer full -/
example : (run (init 2) [.pStart 0, .pLdTail 0, .pLdHead 0, .pSwap 0 false, .pCas 0 false,
    .pStart 0, .pLdTail 0, .pLdHead 0]).map (fun s => (s.fails, s.log)) = some ([1], [0]) := by decide
example : (SpinLock.run SpinLock.init [.beginLock 0, .step 0, .beginTry 1, .step 1]).map
    (fun s => (s.flag, s.tryResults)) = some (true, [(1, true, false)]) := by decide

end Otel.C11
