import OtelVerif.Model.Context
/-! # C10 — Contexts are immutable values and the runtime context is a per-thread stack

Property theorems about `Model/Context.lean` (which mirrors `context/context.h`, `context/runtime_context.h`,
`trace/scope.h`, `Tracer::GetCurrentSpan`, after `fix: D19`).  Clauses of the property and where they are proved:

* "SetValue/SetValues return a new context in which the new keys shadow older bindings … the most recent binding
  of a key is the one returned": `lookup_eq_most_recent`, `get_set_same`, `get_set_other`, `hasKey_set_same`,
  `setValues_shadow`, `setValues_empty_keeps`, and the refinement to an abstract map
  (`setValue_refines_map`, `setValues_refines_map`).
* "every previously obtained context keeps answering GetValue/HasKey exactly as before": `older_unaffected`
  (for every program, by induction over the op list), `older_unaffected_answers`, `new_context_fresh`.
* "Attach makes the given context current, detaching a token restores the context that was current before the
  matching Attach (also out of order, which unwinds everything attached above it; a foreign token changes
  nothing) … a context attached more than once is matched most-recent-first": `attach_makes_current`,
  `detach_attach_restores`, `detach_out_of_order_unwinds`, `detach_most_recent_first`, `detach_foreign_noop`,
  `detach_foreign_result`, `detach_eq_spec`, `balanced_restores`, `attach_above_detach_restores`.
* "releasing a Scope re-activates the previously active span": `scope_open_activates_span`,
  `scope_release_restores_span`, `scope_nested_release_reactivates`.
* "what one thread attaches is never visible to another": `thread_isolation_step`, `thread_isolation`
  (in the model; that `thread_local` really is per thread is a runtime fact, exercised by the harness). -/
namespace Otel.C10
open Otel Otel.Context

/-! ## Specification vocabulary (written from the property text) -/

/-- the bindings a context carries, most recent first -/
def bindings (c : Chain) : List (Bytes × Val) := c.filterMap fun n => n.key.map fun k => (k, n.val)

/-- the most recent binding of `k` in a history of bindings (most recent first); monostate when there is none -/
def mostRecent (k : Bytes) : List (Bytes × Val) → Val
  | [] => .none
  | b :: bs => if b.1 = k then b.2 else mostRecent k bs

/-- a context as an immutable value: a total map from keys to values, monostate = unbound -/
abbrev Map := Bytes → Val
def Map.empty : Map := fun _ => .none
def Map.set (m : Map) (k : Bytes) (v : Val) : Map := fun k' => if k' = k then v else m k'
/-- laying a list of bindings over a map; of two bindings of one key in the list the first listed counts -/
def Map.overlay (m : Map) : List (Bytes × Val) → Map
  | [] => m
  | kv :: kvs => (Map.overlay m kvs).set kv.1 kv.2

/-- the map a chain denotes -/
def denote : Chain → Map
  | [] => Map.empty
  | n :: r => match n.key with
    | some k => (denote r).set k n.val
    | none => denote r

/-! ## Contexts -/

/-- `GetValue` returns the most recent binding of the key -/
theorem lookup_eq_most_recent (k : Bytes) (c : Chain) : lookup k c = mostRecent k (bindings c) := by
  induction c with
  | nil => rfl
  | cons n r ih =>
    cases hk : n.key with
    | none => simp [lookup, bindings, hk] at *; exact ih
    | some k' =>
      by_cases h : k' = k
      · simp [lookup, bindings, hk, h, mostRecent]
      · have h' : ¬ (some k' = some k) := by simpa using h
        simp [lookup, bindings, hk, h, mostRecent] at *
        exact ih

theorem lookup_eq_denote (k : Bytes) (c : Chain) : lookup k c = denote c k := by
  induction c with
  | nil => rfl
  | cons n r ih =>
    cases hk : n.key with
    | none => simp [lookup, denote, hk, ih]
    | some k' =>
      by_cases h : k = k'
      · subst h; simp [lookup, denote, hk, Map.set]
      · have h' : ¬ (k' = k) := fun e => h e.symm
        simp [lookup, denote, hk, Map.set, h, h', ih]

theorem denote_append_nodes (kvs : List (Bytes × Val)) (c : Chain) :
    denote (kvs.map (fun e => (⟨some e.1, e.2⟩ : Node)) ++ c) = (denote c).overlay kvs := by
  induction kvs with
  | nil => rfl
  | cons kv kvs ih => simp [denote, Map.overlay, ih]

theorem denote_nodesOf (kvs : List (Bytes × Val)) (c : Chain) : denote (nodesOf kvs ++ c) = (denote c).overlay kvs := by
  cases kvs with
  | nil => simp [nodesOf, denote, Map.overlay]
  | cons kv kvs => simpa [nodesOf] using denote_append_nodes (kv :: kvs) c

theorem chain?_add_new (s : Store) (c : Chain) : (s.add c).1.chain? (s.add c).2 = some c := by
  simp [Store.add, Store.chain?]

theorem chain?_add_old (s : Store) (c : Chain) (id : CtxId) (h : id < s.size) : (s.add c).1.chain? id = s.chain? id := by
  simp only [Store.add, Store.chain?, Store.size] at *
  exact List.getElem?_append_left h

theorem setValue_some {s : Store} {p : CtxId} {k : Bytes} {v : Val} {s' : Store} {id : CtxId}
    (h : setValue s p k v = some (s', id)) :
    ∃ cp, s.chain? p = some cp ∧ s' = (s.add (⟨some k, v⟩ :: cp)).1 ∧ id = (s.add (⟨some k, v⟩ :: cp)).2 := by
  unfold setValue at h
  cases hp : s.chain? p with
  | none => simp [hp] at h
  | some cp =>
    simp [hp] at h
    exact ⟨cp, rfl, by rw [h], by rw [h]⟩

theorem setValues_some {s : Store} {p : CtxId} {kvs : List (Bytes × Val)} {s' : Store} {id : CtxId}
    (h : setValues s p kvs = some (s', id)) :
    ∃ cp, s.chain? p = some cp ∧ s' = (s.add (nodesOf kvs ++ cp)).1 ∧ id = (s.add (nodesOf kvs ++ cp)).2 := by
  unfold setValues at h
  cases hp : s.chain? p with
  | none => simp [hp] at h
  | some cp =>
    simp [hp] at h
    exact ⟨cp, rfl, by rw [h], by rw [h]⟩

/-- the key just set answers with the value just set -/
theorem get_set_same {s s' : Store} {p id : CtxId} {k : Bytes} {v : Val} (h : setValue s p k v = some (s', id)) :
    getValue s' id k = some v := by
  obtain ⟨cp, _, rfl, rfl⟩ := setValue_some h
  simp [getValue, chain?_add_new, lookup]

/-- every other key answers as in the parent -/
theorem get_set_other {s s' : Store} {p id : CtxId} {k k' : Bytes} {v : Val} (h : setValue s p k v = some (s', id))
    (hk : k' ≠ k) : getValue s' id k' = getValue s p k' := by
  obtain ⟨cp, hp, rfl, rfl⟩ := setValue_some h
  have : ¬ (some k = some k') := by simpa using fun e => hk e.symm
  simp [getValue, chain?_add_new, lookup, hp, this]

theorem hasKey_set_same {s s' : Store} {p id : CtxId} {k : Bytes} {v : Val} (h : setValue s p k v = some (s', id))
    (hv : v ≠ .none) : (s'.chain? id).map (hasKey k) = some true := by
  obtain ⟨cp, _, rfl, rfl⟩ := setValue_some h
  simp [chain?_add_new, hasKey, lookup, hv]

/-- `SetValue` is the point update of the abstract map -/
theorem setValue_refines_map {s s' : Store} {p id : CtxId} {k : Bytes} {v : Val} (h : setValue s p k v = some (s', id)) :
    ∃ cp c', s.chain? p = some cp ∧ s'.chain? id = some c' ∧ denote c' = (denote cp).set k v := by
  obtain ⟨cp, hp, rfl, rfl⟩ := setValue_some h
  exact ⟨cp, _, hp, chain?_add_new _ _, by simp [denote]⟩

/-- `SetValues` lays its bindings over the abstract map (nothing for an empty container) -/
theorem setValues_refines_map {s s' : Store} {p id : CtxId} {kvs : List (Bytes × Val)}
    (h : setValues s p kvs = some (s', id)) :
    ∃ cp c', s.chain? p = some cp ∧ s'.chain? id = some c' ∧ denote c' = (denote cp).overlay kvs := by
  obtain ⟨cp, hp, rfl, rfl⟩ := setValues_some h
  exact ⟨cp, _, hp, chain?_add_new _ _, denote_nodesOf kvs cp⟩

theorem overlay_apply (m : Map) (kvs : List (Bytes × Val)) (k : Bytes) :
    m.overlay kvs k = match kvs.find? (fun kv => kv.1 == k) with
      | some kv => kv.2
      | none => m k := by
  induction kvs with
  | nil => rfl
  | cons kv kvs ih =>
    by_cases h : kv.1 = k
    · simp [Map.overlay, Map.set, h]
    · have h' : ¬ (k = kv.1) := fun e => h e.symm
      simp [Map.overlay, Map.set, h, h', ih]

/-- the keys of a `SetValues` container shadow older bindings (first listed pair of a key), all other keys answer as in
    the parent -/
theorem setValues_shadow {s s' : Store} {p id : CtxId} {kvs : List (Bytes × Val)} (h : setValues s p kvs = some (s', id))
    (k : Bytes) :
    getValue s' id k = match kvs.find? (fun kv => kv.1 == k) with
      | some kv => some kv.2
      | none => getValue s p k := by
  obtain ⟨cp, hp, rfl, rfl⟩ := setValues_some h
  simp only [getValue, chain?_add_new, hp, Option.map_some]
  rw [lookup_eq_denote, denote_nodesOf, overlay_apply, lookup_eq_denote]
  cases kvs.find? (fun kv => kv.1 == k) <;> rfl

/-- D19: an empty container binds nothing — every key, the empty key included, answers as in the parent -/
theorem setValues_empty_keeps {s s' : Store} {p id : CtxId} (h : setValues s p [] = some (s', id)) (k : Bytes) :
    getValue s' id k = getValue s p k := by
  simpa using setValues_shadow h k

example : ∃ s' id, setValues Store.init 0 [] = some (s', id) := ⟨_, _, rfl⟩
example : ∃ s' id, setValue Store.init 0 [1] (.i64 7) = some (s', id) ∧ getValue s' id [1] = some (.i64 7) := ⟨_, _, rfl, rfl⟩

/-- a new context gets an identity no earlier context has -/
theorem new_context_fresh {s s' : Store} {p id : CtxId} {k : Bytes} {v : Val} (h : setValue s p k v = some (s', id)) :
    id = s.size ∧ s.chain? id = none ∧ s'.size = s.size + 1 := by
  obtain ⟨cp, _, rfl, rfl⟩ := setValue_some h
  simp [Store.add, Store.size, Store.chain?]

/-! ### Older contexts are unaffected — by any program -/

theorem withNew_older {s s' : State} {r : Option (Store × CtxId)} {ob : Obs} (h : s.withNew r = some (s', ob))
    (hr : ∀ st id, r = some (st, id) → ∃ c, st = (s.store.add c).1) :
    s'.nthreads = s.nthreads ∧ s'.stacks = s.stacks ∧ ∃ c, s'.store = (s.store.add c).1 := by
  unfold State.withNew at h
  cases r with
  | none => simp at h
  | some x =>
    obtain ⟨st, id⟩ := x
    simp at h
    obtain ⟨c, hc⟩ := hr st id rfl
    obtain ⟨h1, _⟩ := h
    subst h1
    exact ⟨rfl, rfl, c, hc⟩

theorem setValue_adds {s : Store} {p : CtxId} {k : Bytes} {v : Val} :
    ∀ st id, setValue s p k v = some (st, id) → ∃ c, st = (s.add c).1 := by
  intro st id h
  obtain ⟨cp, _, h1, _⟩ := setValue_some h
  exact ⟨_, h1⟩

theorem setValues_adds {s : Store} {p : CtxId} {kvs : List (Bytes × Val)} :
    ∀ st id, setValues s p kvs = some (st, id) → ∃ c, st = (s.add c).1 := by
  intro st id h
  obtain ⟨cp, _, h1, _⟩ := setValues_some h
  exact ⟨_, h1⟩

/-- what a single step may do to the store: nothing, or allocate one new context -/
theorem step_store {s s' : State} {op : Op} {ob : Obs} (h : step s op = some (s', ob)) :
    s'.nthreads = s.nthreads ∧ (s'.store = s.store ∨ ∃ c, s'.store = (s.store.add c).1) := by
  cases op with
  | set t p k v =>
    simp only [step] at h
    split at h
    · obtain ⟨h1, _, h3⟩ := withNew_older h setValue_adds; exact ⟨h1, Or.inr h3⟩
    · simp at h
  | setm t p kvs =>
    simp only [step] at h
    split at h
    · obtain ⟨h1, _, h3⟩ := withNew_older h setValues_adds; exact ⟨h1, Or.inr h3⟩
    · simp at h
  | mk t kvs =>
    simp only [step] at h
    split at h
    · obtain ⟨h1, _, h3⟩ := withNew_older h setValues_adds; exact ⟨h1, Or.inr h3⟩
    · simp at h
  | mk1 t k v =>
    simp only [step] at h
    split at h
    · obtain ⟨h1, _, h3⟩ := withNew_older h setValue_adds; exact ⟨h1, Or.inr h3⟩
    · simp at h
  | get t p k =>
    simp only [step] at h
    split at h
    · cases hc : s.store.chain? p with
      | none => simp [hc] at h
      | some c => simp [hc] at h; obtain ⟨h1, _⟩ := h; subst h1; exact ⟨rfl, Or.inl rfl⟩
    · simp at h
  | rset t k v p =>
    simp only [step] at h
    split at h
    · obtain ⟨h1, _, h3⟩ := withNew_older h setValue_adds; exact ⟨h1, Or.inr h3⟩
    · simp at h
  | rget t k p =>
    simp only [step] at h
    split at h
    · cases hc : s.store.chain? (p.getD (top (s.stacks t))) with
      | none => simp [hc] at h
      | some c => simp [hc] at h; obtain ⟨h1, _⟩ := h; subst h1; exact ⟨rfl, Or.inl rfl⟩
    · simp at h
  | attach t p =>
    simp only [step] at h
    split at h
    · simp at h; obtain ⟨h1, _⟩ := h; subst h1; exact ⟨rfl, Or.inl rfl⟩
    · simp at h
  | detach t m =>
    simp only [step] at h
    split at h
    · split at h
      · simp at h; obtain ⟨h1, _⟩ := h; subst h1; exact ⟨rfl, Or.inl rfl⟩
      · simp at h
    · simp at h
  | drop t m =>
    simp only [step] at h
    split at h
    · split at h
      · simp at h; obtain ⟨h1, _⟩ := h; subst h1; exact ⟨rfl, Or.inl rfl⟩
      · simp at h
    · simp at h
  | cur t =>
    simp only [step] at h
    split at h
    · simp at h; obtain ⟨h1, _⟩ := h; subst h1; exact ⟨rfl, Or.inl rfl⟩
    · simp at h
  | span t =>
    simp only [step] at h
    split at h
    · cases hc : s.store.chain? (top (s.stacks t)) with
      | none => simp [hc] at h
      | some c => simp [hc] at h; obtain ⟨h1, _⟩ := h; subst h1; exact ⟨rfl, Or.inl rfl⟩
    · simp at h
  | scope t i =>
    simp only [step] at h
    split at h
    · cases hc : setValue s.store (top (s.stacks t)) Gen.ctxSpanKey (.span i) with
      | none => simp [hc] at h
      | some x =>
        obtain ⟨st, id⟩ := x
        simp [hc] at h
        obtain ⟨h1, _⟩ := h
        subst h1
        exact ⟨rfl, Or.inr (setValue_adds st id hc)⟩
    · simp at h
  | close t j =>
    simp only [step] at h
    split at h
    · split at h
      · simp at h; obtain ⟨h1, _⟩ := h; subst h1; exact ⟨rfl, Or.inl rfl⟩
      · simp at h
    · simp at h
  | dump t =>
    simp only [step] at h
    split at h
    · simp at h; obtain ⟨h1, _⟩ := h; subst h1; exact ⟨rfl, Or.inl rfl⟩
    · simp at h
  | conc t r =>
    simp only [step] at h
    split at h
    · simp at h; obtain ⟨h1, _⟩ := h; subst h1; exact ⟨rfl, Or.inl rfl⟩
    · simp at h

/-- one operation — of any kind, by any thread — leaves every existing context exactly as it was -/
theorem older_unaffected_step {s s' : State} {op : Op} {ob : Obs} (h : step s op = some (s', ob)) :
    s.store.size ≤ s'.store.size ∧ ∀ id, id < s.store.size → s'.store.chain? id = s.store.chain? id := by
  obtain ⟨_, h2 | ⟨c, h2⟩⟩ := step_store h
  · rw [h2]; exact ⟨Nat.le_refl _, fun _ _ => rfl⟩
  · rw [h2]
    refine ⟨?_, fun id hid => chain?_add_old _ _ _ hid⟩
    simp [Store.add, Store.size]

theorem run_cons {s s'' : State} {o : Op} {os : List Op} {obs : List Obs} (h : run s (o :: os) = some (s'', obs)) :
    ∃ s' ob obs', step s o = some (s', ob) ∧ run s' os = some (s'', obs') ∧ obs = ob :: obs' := by
  simp only [run] at h
  cases h1 : step s o with
  | none => simp [h1] at h
  | some x =>
    obtain ⟨s', ob⟩ := x
    simp only [h1] at h
    cases h2 : run s' os with
    | none => simp [h2] at h
    | some y =>
      obtain ⟨s3, obs'⟩ := y
      simp [h2] at h
      exact ⟨s', ob, obs', rfl, by rw [h2, h.1], h.2.symm⟩

/-- **every previously obtained context keeps its content after any program whatsoever** -/
theorem older_unaffected : ∀ (ops : List Op) (s s' : State) (obs : List Obs), run s ops = some (s', obs) →
    s.store.size ≤ s'.store.size ∧ ∀ id, id < s.store.size → s'.store.chain? id = s.store.chain? id
  | [], s, s', obs, h => by
    simp [run] at h; obtain ⟨h1, _⟩ := h; subst h1; exact ⟨Nat.le_refl _, fun _ _ => rfl⟩
  | o :: os, s, s', obs, h => by
    obtain ⟨s1, ob, obs', h1, h2, _⟩ := run_cons h
    obtain ⟨a1, a2⟩ := older_unaffected_step h1
    obtain ⟨b1, b2⟩ := older_unaffected os s1 s' obs' h2
    exact ⟨Nat.le_trans a1 b1, fun id hid => by rw [b2 id (Nat.lt_of_lt_of_le hid a1), a2 id hid]⟩

/-- … hence answers `GetValue` and `HasKey` exactly as before, for every key -/
theorem older_unaffected_answers {ops : List Op} {s s' : State} {obs : List Obs} (h : run s ops = some (s', obs))
    (id : CtxId) (hid : id < s.store.size) (k : Bytes) :
    getValue s'.store id k = getValue s.store id k ∧
    (s'.store.chain? id).map (hasKey k) = (s.store.chain? id).map (hasKey k) := by
  have := (older_unaffected ops s s' obs h).2 id hid
  simp [getValue, this]

/-! ## The runtime context stack -/

/-- spec of `Detach`: cut the stack at the most recent occurrence of the token's context (it and everything above
    it go); a context that is not on the stack changes nothing -/
def specDetach (s : Stack) (tok : CtxId) : Stack × Bool :=
  if tok ∈ s then ((s.dropWhile (· ≠ tok)).drop 1, true) else (s, s.isEmpty && tok == 0)

theorem popThrough_eq (tok : CtxId) (s : Stack) : popThrough tok s = (s.dropWhile (· ≠ tok)).drop 1 := by
  induction s with
  | nil => rfl
  | cons c r ih =>
    by_cases h : c = tok
    · simp [popThrough, h, List.dropWhile]
    · simp [popThrough, h, List.dropWhile, ih]

theorem detach_eq_spec (s : Stack) (tok : CtxId) : detach s tok = specDetach s tok := by
  unfold detach specDetach
  cases s with
  | nil =>
    by_cases h : tok = 0
    · simp [top, h]
    · simp [top, h]
  | cons c r =>
    by_cases h : tok = c
    · subst h; simp [top]
    · by_cases hm : tok ∈ r
      · simp [top, h, hm, popThrough_eq]
      · simp [top, h, hm]

/-- `Attach` makes the given context the current one -/
theorem attach_makes_current (s : Stack) (c : CtxId) : top (attach s c) = c := rfl

/-- detaching the token of the latest `Attach` restores exactly the stack (hence the current context) from before it -/
theorem detach_attach_restores (s : Stack) (c : CtxId) : detach (attach s c) c = (s, true) := by
  simp [detach, attach, top]

/-- out of order: everything attached above the token's context is unwound with it -/
theorem detach_out_of_order_unwinds (above below : Stack) (c : CtxId) (h : c ∉ above) :
    detach (above ++ c :: below) c = (below, true) := by
  rw [detach_eq_spec]
  unfold specDetach
  have hm : c ∈ above ++ c :: below := by simp
  simp only [hm, if_true]
  congr 1
  induction above with
  | nil => simp
  | cons a as ih =>
    have ha : a ≠ c := fun e => h (by simp [e])
    have has : c ∉ as := fun e => h (List.mem_cons_of_mem _ e)
    simp [ha]
    simpa using ih has (by simp)

/-- a context attached more than once is matched most-recent-first: the older attachment stays -/
theorem detach_most_recent_first (above mid below : Stack) (c : CtxId) (h : c ∉ above) :
    detach (above ++ c :: (mid ++ c :: below)) c = (mid ++ c :: below, true) :=
  detach_out_of_order_unwinds above (mid ++ c :: below) c h

/-- a foreign token (its context is not on this thread's stack) changes nothing -/
theorem detach_foreign_noop (s : Stack) (c : CtxId) (h : c ∉ s) : (detach s c).1 = s := by
  rw [detach_eq_spec]; simp [specDetach, h]

/-- … and is refused, except for the default context on an empty stack (`Top()` of an empty stack *is* the default
    context, so that `Detach` "succeeds" without effect) -/
theorem detach_foreign_result (s : Stack) (c : CtxId) (h : c ∉ s) : (detach s c).2 = (s.isEmpty && c == 0) := by
  rw [detach_eq_spec]; simp [specDetach, h]

example : detach [5, 3, 5, 1] 5 = ([3, 5, 1], true) := by decide
example : detach [4, 3, 5, 1] 5 = ([1], true) := by decide
example : detach [4, 3] 5 = ([4, 3], false) := by decide

/-! ### Whole attach/detach programs of one thread -/

inductive SOp where
  | attach (c : CtxId)
  | detach (c : CtxId)

/-- run a thread's attach/detach sequence; collects what every `Detach` returned -/
def srun (s : Stack) : List SOp → Stack × List Bool
  | [] => (s, [])
  | .attach c :: os => srun (attach s c) os
  | .detach c :: os => let r := detach s c; let q := srun r.1 os; (q.1, r.2 :: q.2)

/-- properly nested attach … detach pairs (any depth, any contexts, repeats allowed) -/
inductive Balanced : List SOp → Prop
  | nil : Balanced []
  | wrap (c : CtxId) {inner rest : List SOp} : Balanced inner → Balanced rest →
      Balanced (.attach c :: (inner ++ .detach c :: rest))

theorem srun_append (s : Stack) (a b : List SOp) :
    srun s (a ++ b) = ((srun (srun s a).1 b).1, (srun s a).2 ++ (srun (srun s a).1 b).2) := by
  induction a generalizing s with
  | nil => simp [srun]
  | cons o os ih =>
    cases o with
    | attach c => simp [srun, ih]
    | detach c => simp [srun, ih]

/-- a properly nested program restores the stack it started from, and every `Detach` in it succeeds -/
theorem balanced_restores {ops : List SOp} (h : Balanced ops) : ∀ s, (srun s ops).1 = s ∧ ∀ b ∈ (srun s ops).2, b = true := by
  induction h with
  | nil => intro s; simp [srun]
  | wrap c _ _ ih1 ih2 =>
    intro s
    simp only [srun, srun_append]
    obtain ⟨i1, i2⟩ := ih1 (attach s c)
    rw [i1, detach_attach_restores]
    obtain ⟨r1, r2⟩ := ih2 s
    refine ⟨r1, ?_⟩
    intro b hb
    simp only [List.mem_append, List.mem_cons] at hb
    rcases hb with hb | hb | hb
    · exact i2 b hb
    · exact hb
    · exact r2 b hb

/-- what may run between an `Attach c` and the out-of-order detach of its token without touching the attachment:
    further attaches of other contexts that are never detached, and properly nested blocks -/
inductive Above (c : CtxId) : List SOp → Prop
  | nil : Above c []
  | push (d : CtxId) {rest : List SOp} : d ≠ c → Above c rest → Above c (.attach d :: rest)
  | block {b rest : List SOp} : Balanced b → Above c rest → Above c (b ++ rest)

theorem above_run {c : CtxId} {ops : List SOp} (h : Above c ops) :
    ∀ s, ∃ above, c ∉ above ∧ (srun s ops).1 = above ++ s := by
  induction h with
  | nil => intro s; exact ⟨[], by simp, by simp [srun]⟩
  | push d hd _ ih =>
    intro s
    obtain ⟨ab, h1, h2⟩ := ih (attach s d)
    refine ⟨ab ++ [d], ?_, ?_⟩
    · simp only [List.mem_append, List.mem_singleton, not_or]; exact ⟨h1, fun e => hd e.symm⟩
    · simp only [attach] at h2
      simp [srun, h2, attach]
  | block hb _ ih =>
    intro s
    rw [srun_append, (balanced_restores hb s).1]
    exact ih s

/-- **detaching a token restores the context that was current before the matching Attach**, also when other contexts
    were attached above it in the meantime and never detached: they are unwound with it -/
theorem attach_above_detach_restores {c : CtxId} {between : List SOp} (h : Above c between) (s : Stack) :
    (srun s (.attach c :: (between ++ [.detach c]))).1 = s ∧
    (srun s (.attach c :: (between ++ [.detach c]))).2.getLast? = some true := by
  obtain ⟨ab, h1, h2⟩ := above_run h (attach s c)
  simp only [attach] at h2
  simp only [srun, srun_append, attach, h2]
  rw [detach_out_of_order_unwinds ab s c h1]
  simp

example : Above 7 [.attach 1, .attach 2, .detach 2, .attach 3] :=
  .push 1 (by decide) (.block (b := [.attach 2, .detach 2]) (.wrap 2 (inner := []) (rest := []) .nil .nil) (.push 3 (by decide) .nil))

/-! ### The program operations act on a thread's stack exactly through `attach` / `detach` -/

/-- `RuntimeContext::Attach` in a program: the executing thread's stack gets the context pushed, a new token is handed out -/
theorem step_attach_stack {s s' : State} {t p : Nat} {ob : Obs} (h : step s (.attach t p) = some (s', ob)) :
    s'.stacks t = attach (s.stacks t) p ∧ top (s'.stacks t) = p ∧ ob = .token s.toks.length ∧
    s'.toks = s.toks ++ [(p, true)] := by
  simp only [step] at h
  split at h
  · simp at h; obtain ⟨h1, h2⟩ := h; subst h1; exact ⟨by simp [setStack], by simp [setStack, attach, top], h2.symm, rfl⟩
  · simp at h

/-- `RuntimeContext::Detach(token)` in a program: the stack and the returned flag are `detach` of the token's context -/
theorem step_detach_stack {s s' : State} {t m : Nat} {ob : Obs} (h : step s (.detach t m) = some (s', ob)) :
    ∃ c, s.toks[m]? = some (c, true) ∧ s'.stacks t = (detach (s.stacks t) c).1 ∧ ob = .flag (detach (s.stacks t) c).2 := by
  simp only [step] at h
  split at h
  · split at h
    · rename_i c hc
      simp at h; obtain ⟨h1, h2⟩ := h; subst h1
      exact ⟨c, hc, by simp [setStack], h2.symm⟩
    · simp at h
  · simp at h

/-- destroying a token (`~Token`) detaches it -/
theorem step_drop_stack {s s' : State} {t m : Nat} {ob : Obs} (h : step s (.drop t m) = some (s', ob)) :
    ∃ c, s.toks[m]? = some (c, true) ∧ s'.stacks t = (detach (s.stacks t) c).1 := by
  simp only [step] at h
  split at h
  · split at h
    · rename_i c hc
      simp at h; obtain ⟨h1, _⟩ := h; subst h1
      exact ⟨c, hc, by simp [setStack]⟩
    · simp at h
  · simp at h

/-- attach then detach of the token just obtained, as program steps: the stack (hence `GetCurrent()`) is restored -/
theorem program_attach_detach_restores {s s1 s2 : State} {t p : Nat} {ob1 ob2 : Obs}
    (h1 : step s (.attach t p) = some (s1, ob1)) (h2 : step s1 (.detach t s.toks.length) = some (s2, ob2)) :
    s2.stacks t = s.stacks t ∧ ob2 = .flag true := by
  obtain ⟨a1, _, _, a4⟩ := step_attach_stack h1
  obtain ⟨c, c1, c2, c3⟩ := step_detach_stack h2
  rw [a4] at c1
  simp at c1
  obtain ⟨rfl, _⟩ := c1
  rw [a1, detach_attach_restores] at c2 c3
  exact ⟨c2, c3⟩

/-! ## Scope -/

/-- the key is the literal `"active_span"` -/
theorem ctxSpanKey_eq : Gen.ctxSpanKey = [97, 99, 116, 105, 118, 101, 95, 115, 112, 97, 110] := by decide

/-- the observation of `Tracer::GetCurrentSpan()` on thread `t` -/
def currentSpan (s : State) (t : Nat) : Option (Option Nat) := (s.store.chain? (top (s.stacks t))).map spanOf

theorem scope_step {s s1 : State} {t i j : Nat} {id : CtxId} (h : step s (.scope t i) = some (s1, .scope j id)) :
    t < s.nthreads ∧ setValue s.store (top (s.stacks t)) Gen.ctxSpanKey (.span i) = some (s1.store, id) ∧
    s1.stacks = setStack s.stacks t (id :: s.stacks t) ∧ s1.scopes = s.scopes ++ [(id, true)] ∧ j = s.scopes.length ∧
    s1.nthreads = s.nthreads := by
  simp only [step] at h
  split at h
  · rename_i hc
    cases hv : setValue s.store (top (s.stacks t)) Gen.ctxSpanKey (.span i) with
    | none => simp [hv] at h
    | some x =>
      obtain ⟨st, id'⟩ := x
      simp [hv] at h
      obtain ⟨h1, h2, h3⟩ := h
      subst h1 h3
      exact ⟨hc.1, rfl, rfl, rfl, h2.symm, rfl⟩
  · simp at h

/-- opening a `Scope` makes its span the active one -/
theorem scope_open_activates_span {s s1 : State} {t i j : Nat} {id : CtxId}
    (h : step s (.scope t i) = some (s1, .scope j id)) : currentSpan s1 t = some (some i) := by
  obtain ⟨_, hv, hs, _⟩ := scope_step h
  have := get_set_same hv
  simp only [currentSpan, hs, setStack, if_true, top, List.headD]
  simp only [getValue] at this
  cases hc : s1.store.chain? id with
  | none => simp [hc] at this
  | some c => simp [hc] at this; simp [spanOf, this]

/-- **releasing a Scope re-activates the previously active span**: whatever was attached above the scope's context in
    the meantime (`above`), the release unwinds to the stack from before the scope was opened, and — because older
    contexts are unaffected by everything that happened since (`later` is any store the program went on to) — the
    active span is again the one from before -/
theorem scope_release_restores_span {s s1 : State} {t i j : Nat} {id : CtxId}
    (h : step s (.scope t i) = some (s1, .scope j id)) (above : Stack) (habove : id ∉ above) :
    detach (above ++ s1.stacks t) id = (s.stacks t, true) ∧
    ∀ later : Store, (∀ x, x < s.store.size → later.chain? x = s.store.chain? x) →
      (later.chain? (top (s.stacks t))).map spanOf = currentSpan s t := by
  obtain ⟨_, hv, hs, _⟩ := scope_step h
  refine ⟨?_, ?_⟩
  · simp only [hs, setStack, if_true]
    exact detach_out_of_order_unwinds above (s.stacks t) id habove
  · intro later hl
    obtain ⟨cp, hp, _, _⟩ := setValue_some hv
    have hlt : top (s.stacks t) < s.store.size := by
      simp only [Store.chain?, Store.size] at *
      exact (List.getElem?_eq_some_iff.mp hp).1
    simp [currentSpan, hl _ hlt]

/-- nested scopes, program level: open `i1`, open `i2`, release the inner one — the active span is `i1` again -/
theorem scope_nested_release_reactivates {s s1 s2 s3 : State} {t i1 i2 j1 j2 : Nat} {id1 id2 : CtxId} {ob : Obs}
    (h1 : step s (.scope t i1) = some (s1, .scope j1 id1)) (h2 : step s1 (.scope t i2) = some (s2, .scope j2 id2))
    (h3 : step s2 (.close t j2) = some (s3, ob)) :
    s3.stacks t = s1.stacks t ∧ currentSpan s3 t = some (some i1) := by
  obtain ⟨ht, hv2, hs2, hsc2, hj2, hn2⟩ := scope_step h2
  have hopen := scope_open_activates_span h1
  have hget : s2.scopes[j2]? = some (id2, true) := by simp [hsc2, hj2]
  simp only [step, hget] at h3
  have ht2 : t < s2.nthreads := by rw [hn2]; exact ht
  simp only [ht2, if_true] at h3
  simp at h3
  obtain ⟨h3, _⟩ := h3
  have hd : detach (s2.stacks t) id2 = (s1.stacks t, true) := by
    simp only [hs2, setStack, if_true]
    exact detach_attach_restores _ _
  have hst : s3.stacks t = s1.stacks t := by
    rw [← h3]; simp [setStack, hd]
  refine ⟨hst, ?_⟩
  have hstore : s3.store = s2.store := by rw [← h3]
  obtain ⟨cp, hp, hs', _⟩ := setValue_some hv2
  have hlt : top (s1.stacks t) < s1.store.size := by
    simp only [Store.chain?, Store.size] at *
    exact (List.getElem?_eq_some_iff.mp hp).1
  simp only [currentSpan, hst, hstore, hs', chain?_add_old _ _ _ hlt]
  exact hopen

example : ∃ s1 j id, step (State.init 1) (.scope 0 2) = some (s1, .scope j id) := ⟨_, _, _, rfl⟩

/-! ### Scope release after an arbitrary program -/

theorem killAt_fst (l : List (CtxId × Bool)) (m j : Nat) (c : CtxId) (b : Bool) (h : l[j]? = some (c, b)) :
    ∃ b', (killAt l m)[j]? = some (c, b') := by
  unfold killAt
  by_cases e : m = j
  · subst e
    have hlt : m < l.length := (List.getElem?_eq_some_iff.mp h).1
    refine ⟨false, ?_⟩
    rw [List.getElem?_set_self hlt]
    simp [List.getD_eq_getElem?_getD, h]
  · exact ⟨b, by rw [List.getElem?_set_ne e]; exact h⟩

/-- a scope keeps the context it attached, whatever happens (it can only be closed) -/
theorem step_scopes_fst {s s' : State} {op : Op} {ob : Obs} (h : step s op = some (s', ob)) (j : Nat) (c : CtxId) (b : Bool)
    (hj : s.scopes[j]? = some (c, b)) : ∃ b', s'.scopes[j]? = some (c, b') := by
  have keep : s'.scopes = s.scopes → ∃ b', s'.scopes[j]? = some (c, b') := fun e => ⟨b, by rw [e]; exact hj⟩
  cases op with
  | set t p k v =>
    simp only [step] at h
    split at h
    · unfold State.withNew at h
      cases hr : setValue s.store p k v with
      | none => simp [hr] at h
      | some x => simp [hr] at h; obtain ⟨h1, _⟩ := h; subst h1; exact keep rfl
    · simp at h
  | setm t p kvs =>
    simp only [step] at h
    split at h
    · unfold State.withNew at h
      cases hr : setValues s.store p kvs with
      | none => simp [hr] at h
      | some x => simp [hr] at h; obtain ⟨h1, _⟩ := h; subst h1; exact keep rfl
    · simp at h
  | mk t kvs =>
    simp only [step] at h
    split at h
    · unfold State.withNew at h
      cases hr : setValues s.store 0 kvs with
      | none => simp [hr] at h
      | some x => simp [hr] at h; obtain ⟨h1, _⟩ := h; subst h1; exact keep rfl
    · simp at h
  | mk1 t k v =>
    simp only [step] at h
    split at h
    · unfold State.withNew at h
      cases hr : setValue s.store 0 k v with
      | none => simp [hr] at h
      | some x => simp [hr] at h; obtain ⟨h1, _⟩ := h; subst h1; exact keep rfl
    · simp at h
  | rset t k v p =>
    simp only [step] at h
    split at h
    · unfold State.withNew at h
      cases hr : setValue s.store (p.getD (top (s.stacks t))) k v with
      | none => simp [hr] at h
      | some x => simp [hr] at h; obtain ⟨h1, _⟩ := h; subst h1; exact keep rfl
    · simp at h
  | get t p k =>
    simp only [step] at h
    split at h
    · cases hc : s.store.chain? p with
      | none => simp [hc] at h
      | some c => simp [hc] at h; obtain ⟨h1, _⟩ := h; subst h1; exact keep rfl
    · simp at h
  | rget t k p =>
    simp only [step] at h
    split at h
    · cases hc : s.store.chain? (p.getD (top (s.stacks t))) with
      | none => simp [hc] at h
      | some c => simp [hc] at h; obtain ⟨h1, _⟩ := h; subst h1; exact keep rfl
    · simp at h
  | attach t p =>
    simp only [step] at h
    split at h
    · simp at h; obtain ⟨h1, _⟩ := h; subst h1; exact keep rfl
    · simp at h
  | detach t m =>
    simp only [step] at h
    split at h
    · split at h
      · simp at h; obtain ⟨h1, _⟩ := h; subst h1; exact keep rfl
      · simp at h
    · simp at h
  | drop t m =>
    simp only [step] at h
    split at h
    · split at h
      · simp at h; obtain ⟨h1, _⟩ := h; subst h1; exact keep rfl
      · simp at h
    · simp at h
  | cur t =>
    simp only [step] at h
    split at h
    · simp at h; obtain ⟨h1, _⟩ := h; subst h1; exact keep rfl
    · simp at h
  | span t =>
    simp only [step] at h
    split at h
    · cases hc : s.store.chain? (top (s.stacks t)) with
      | none => simp [hc] at h
      | some c => simp [hc] at h; obtain ⟨h1, _⟩ := h; subst h1; exact keep rfl
    · simp at h
  | scope t i =>
    simp only [step] at h
    split at h
    · cases hc : setValue s.store (top (s.stacks t)) Gen.ctxSpanKey (.span i) with
      | none => simp [hc] at h
      | some x =>
        obtain ⟨st, id⟩ := x
        simp [hc] at h
        obtain ⟨h1, _⟩ := h
        subst h1
        have hlt : j < s.scopes.length := (List.getElem?_eq_some_iff.mp hj).1
        exact ⟨b, by simp only; rw [List.getElem?_append_left hlt]; exact hj⟩
    · simp at h
  | close t j' =>
    simp only [step] at h
    split at h
    · split at h
      · simp at h; obtain ⟨h1, _⟩ := h; subst h1
        exact killAt_fst s.scopes j' j c b hj
      · simp at h
    · simp at h
  | dump t =>
    simp only [step] at h
    split at h
    · simp at h; obtain ⟨h1, _⟩ := h; subst h1; exact keep rfl
    · simp at h
  | conc t r =>
    simp only [step] at h
    split at h
    · simp at h; obtain ⟨h1, _⟩ := h; subst h1; exact keep rfl
    · simp at h

theorem run_scopes_fst : ∀ (ops : List Op) (s s' : State) (obs : List Obs), run s ops = some (s', obs) →
    ∀ (j : Nat) (c : CtxId) (b : Bool), s.scopes[j]? = some (c, b) → ∃ b', s'.scopes[j]? = some (c, b')
  | [], s, s', obs, h, j, c, b, hj => by
    simp [run] at h; obtain ⟨h1, _⟩ := h; subst h1; exact ⟨b, hj⟩
  | o :: os, s, s', obs, h, j, c, b, hj => by
    obtain ⟨s1, ob, obs', h1, h2, _⟩ := run_cons h
    obtain ⟨b1, hb1⟩ := step_scopes_fst h1 j c b hj
    exact run_scopes_fst os s1 s' obs' h2 j c b1 hb1

/-- **releasing a Scope re-activates the previously active span — after any program**: open a scope, let the threads
    run *any* operations (`ops`); if the scope's attachment is still on its thread's stack (`above ++ id :: …`, i.e. no
    detach reached below it), closing the scope — also out of order, with other attachments above it — restores the
    stack from before the scope was opened and `GetCurrentSpan()` answers what it answered then -/
theorem scope_release_after_program {s s1 s2 s3 : State} {t i j : Nat} {id : CtxId} {ops : List Op} {obs : List Obs}
    {ob : Obs} {above : Stack}
    (hopen : step s (.scope t i) = some (s1, .scope j id)) (hrun : run s1 ops = some (s2, obs))
    (hshape : s2.stacks t = above ++ id :: s.stacks t) (habove : id ∉ above)
    (hclose : step s2 (.close t j) = some (s3, ob)) :
    s3.stacks t = s.stacks t ∧ currentSpan s3 t = currentSpan s t := by
  obtain ⟨ht, hv, hs, hsc, hj, hn⟩ := scope_step hopen
  have hj1 : s1.scopes[j]? = some (id, true) := by simp [hsc, hj]
  obtain ⟨b', hj2⟩ := run_scopes_fst ops s1 s2 obs hrun j id true hj1
  simp only [step] at hclose
  split at hclose
  · rw [hj2] at hclose
    cases b' with
    | false => simp at hclose
    | true =>
      simp at hclose
      obtain ⟨h3, _⟩ := hclose
      have hd : detach (s2.stacks t) id = (s.stacks t, true) := by
        rw [hshape]; exact detach_out_of_order_unwinds above (s.stacks t) id habove
      have hst : s3.stacks t = s.stacks t := by rw [← h3]; simp [setStack, hd]
      refine ⟨hst, ?_⟩
      have hstore : s3.store = s2.store := by rw [← h3]
      obtain ⟨cp, hp, _, _⟩ := setValue_some hv
      have hlt : top (s.stacks t) < s.store.size := by
        simp only [Store.chain?, Store.size] at *
        exact (List.getElem?_eq_some_iff.mp hp).1
      have h01 := (older_unaffected_step hopen).2 _ hlt
      have h12 := (older_unaffected ops s1 s2 obs hrun).2 (top (s.stacks t))
        (Nat.lt_of_lt_of_le hlt (older_unaffected_step hopen).1)
      simp only [currentSpan, hst, hstore, h12, h01]
  · simp at hclose

example : ∃ s1 s2 s3 obs ob, step (State.init 1) (.scope 0 2) = some (s1, .scope 0 1) ∧
    run s1 [.set 0 0 [1] (.i64 1), .attach 0 2, .scope 0 3] = some (s2, obs) ∧ s2.stacks 0 = [3, 2] ++ 1 :: [] ∧
    step s2 (.close 0 0) = some (s3, ob) ∧ s3.stacks 0 = [] := ⟨_, _, _, _, _, rfl, rfl, rfl, rfl, rfl⟩

/-! ## Thread isolation -/

theorem withNew_stacks {s s' : State} {r : Option (Store × CtxId)} {ob : Obs} (h : s.withNew r = some (s', ob)) :
    s'.stacks = s.stacks := by
  unfold State.withNew at h
  cases r with
  | none => simp at h
  | some x => simp at h; obtain ⟨h1, _⟩ := h; subst h1; rfl

theorem setStack_other (f : Nat → Stack) (t u : Nat) (st : Stack) (h : u ≠ t) : setStack f t st u = f u := by
  simp [setStack, h]

/-- an operation of thread `t` changes only thread `t`'s stack -/
theorem thread_isolation_step {s s' : State} {op : Op} {ob : Obs} (h : step s op = some (s', ob)) (u : Nat)
    (hu : u ≠ op.thread) : s'.stacks u = s.stacks u := by
  cases op with
  | set t p k v =>
    simp only [step] at h
    split at h
    · rw [withNew_stacks h]
    · simp at h
  | setm t p kvs =>
    simp only [step] at h
    split at h
    · rw [withNew_stacks h]
    · simp at h
  | mk t kvs =>
    simp only [step] at h
    split at h
    · rw [withNew_stacks h]
    · simp at h
  | mk1 t k v =>
    simp only [step] at h
    split at h
    · rw [withNew_stacks h]
    · simp at h
  | rset t k v p =>
    simp only [step] at h
    split at h
    · rw [withNew_stacks h]
    · simp at h
  | get t p k =>
    simp only [step] at h
    split at h
    · cases hc : s.store.chain? p with
      | none => simp [hc] at h
      | some c => simp [hc] at h; obtain ⟨h1, _⟩ := h; subst h1; rfl
    · simp at h
  | rget t k p =>
    simp only [step] at h
    split at h
    · cases hc : s.store.chain? (p.getD (top (s.stacks t))) with
      | none => simp [hc] at h
      | some c => simp [hc] at h; obtain ⟨h1, _⟩ := h; subst h1; rfl
    · simp at h
  | attach t p =>
    simp only [step] at h
    split at h
    · simp at h; obtain ⟨h1, _⟩ := h; subst h1; exact setStack_other _ _ _ _ hu
    · simp at h
  | detach t m =>
    simp only [step] at h
    split at h
    · split at h
      · simp at h; obtain ⟨h1, _⟩ := h; subst h1; exact setStack_other _ _ _ _ hu
      · simp at h
    · simp at h
  | drop t m =>
    simp only [step] at h
    split at h
    · split at h
      · simp at h; obtain ⟨h1, _⟩ := h; subst h1; exact setStack_other _ _ _ _ hu
      · simp at h
    · simp at h
  | cur t =>
    simp only [step] at h
    split at h
    · simp at h; obtain ⟨h1, _⟩ := h; subst h1; rfl
    · simp at h
  | span t =>
    simp only [step] at h
    split at h
    · cases hc : s.store.chain? (top (s.stacks t)) with
      | none => simp [hc] at h
      | some c => simp [hc] at h; obtain ⟨h1, _⟩ := h; subst h1; rfl
    · simp at h
  | scope t i =>
    simp only [step] at h
    split at h
    · cases hc : setValue s.store (top (s.stacks t)) Gen.ctxSpanKey (.span i) with
      | none => simp [hc] at h
      | some x =>
        obtain ⟨st, id⟩ := x
        simp [hc] at h
        obtain ⟨h1, _⟩ := h
        subst h1
        exact setStack_other _ _ _ _ hu
    · simp at h
  | close t j =>
    simp only [step] at h
    split at h
    · split at h
      · simp at h; obtain ⟨h1, _⟩ := h; subst h1; exact setStack_other _ _ _ _ hu
      · simp at h
    · simp at h
  | dump t =>
    simp only [step] at h
    split at h
    · simp at h; obtain ⟨h1, _⟩ := h; subst h1; rfl
    · simp at h
  | conc t r =>
    simp only [step] at h
    split at h
    · simp at h; obtain ⟨h1, _⟩ := h; subst h1; rfl
    · simp at h

/-- **what other threads do — any program of theirs — is never visible on thread `u`'s stack** -/
theorem thread_isolation : ∀ (ops : List Op) (s s' : State) (obs : List Obs) (u : Nat), run s ops = some (s', obs) →
    (∀ op ∈ ops, op.thread ≠ u) → s'.stacks u = s.stacks u
  | [], s, s', obs, u, h, _ => by simp [run] at h; obtain ⟨h1, _⟩ := h; subst h1; rfl
  | o :: os, s, s', obs, u, h, hu => by
    obtain ⟨s1, ob, obs', h1, h2, _⟩ := run_cons h
    rw [thread_isolation os s1 s' obs' u h2 (fun op hop => hu op (List.mem_cons_of_mem _ hop)),
      thread_isolation_step h1 u (fun e => hu o (by simp) e.symm)]

example : ∃ s' obs, run (State.init 2) [.set 0 0 [1] (.i64 1), .attach 0 1, .attach 1 1, .detach 1 0] = some (s', obs) ∧
    s'.stacks 0 = [1] ∧ s'.stacks 1 = [] := ⟨_, _, rfl, rfl, rfl⟩

end Otel.C10
