import OtelVerif.Model.Env
import OtelVerif.Model.Resource
import OtelVerif.Lemmas.Bytes
/-! # C18 — Resources merge with documented precedence; environment settings parse totally

Property theorems about `Model/Env.lean` (mirrors `sdk/src/common/env_variables.cc`, `disabled.cc`) and
`Model/Resource.lean` (mirrors `sdk/src/resource/resource.cc`, `resource_detector.cc`).  The default attributes, the
unit table, the boolean literals and the integer bound come from `Gen/C18.lean`, re-extracted from the source on every
run; the words and numbers of the property text (`true`/`false`, 32 bits, `ns us ms s m h`, `service.name`,
`telemetry.sdk.*`) are literals here and are tied to the generated values by `decide`d lemmas. -/
namespace Otel.C18
open Otel Otel.Env

/-! ## Specification vocabulary (written by hand from the property text and the header documentation) -/

def IsDigit (c : UInt8) : Prop := 48 ≤ c ∧ c ≤ 57
instance : DecidablePred IsDigit := fun c => by unfold IsDigit; exact inferInstance

/-- value of a decimal numeral, least significant digit first -/
def leVal : Bytes → Nat
  | [] => 0
  | d :: t => (d.toNat - 48) + 10 * leVal t

/-- value of a decimal numeral as written (most significant digit first): Σ dᵢ·10^(n-1-i) -/
def numVal (ds : Bytes) : Nat := leVal ds.reverse

/-- the word `true`, each letter in either case -/
def IsTrueWord (s : Bytes) : Prop :=
  ∃ a b c d, s = [a, b, c, d] ∧ (a = 116 ∨ a = 84) ∧ (b = 114 ∨ b = 82) ∧ (c = 117 ∨ c = 85) ∧ (d = 101 ∨ d = 69)

/-- the word `false`, each letter in either case -/
def IsFalseWord (s : Bytes) : Prop :=
  ∃ a b c d e, s = [a, b, c, d, e] ∧ (a = 102 ∨ a = 70) ∧ (b = 97 ∨ b = 65) ∧ (c = 108 ∨ c = 76) ∧ (d = 115 ∨ d = 83) ∧
    (e = 101 ∨ e = 69)

/-- **documented unsigned-integer syntax**: a non-empty string of decimal digits whose value fits 32 bits -/
def UintSyntax (s : Bytes) (v : Nat) : Prop :=
  s ≠ [] ∧ (∀ c ∈ s, IsDigit c) ∧ numVal s = v ∧ v ≤ 4294967295

/-- the documented units and their length in nanoseconds; no unit means seconds (`env_variables.cc`: "opentelemetry-cpp
    implemented seconds by default") -/
def unitTable : List (Bytes × Nat) :=
  [([110, 115], 1),                    -- ns
   ([117, 115], 1000),                 -- us
   ([109, 115], 1000000),              -- ms
   ([115], 1000000000),                -- s
   ([109], 60000000000),               -- m
   ([104], 3600000000000),             -- h
   ([], 1000000000)]

/-- **documented duration syntax**: (white space the code documents as skipped,) digits, an optional unit; the value is
    not zero ("Rejecting duration 0 as invalid") and, in nanoseconds, fits the 64-bit signed `system_clock` tick count -/
def DurationSyntax (s : Bytes) (ns : Nat) : Prop :=
  ∃ ws ds u m, s = ws ++ ds ++ u ∧ (∀ c ∈ ws, isSpace c = true) ∧ ds ≠ [] ∧ (∀ c ∈ ds, IsDigit c) ∧ (u, m) ∈ unitTable ∧
    numVal ds ≠ 0 ∧ ns = numVal ds * m ∧ ns ≤ 9223372036854775807

/-! ## Generated constants = the literals of the property text -/

theorem unit_table : Gen.envDurationUnits = unitTable := by decide
theorem bool_table : Gen.envBoolLiterals = [([116, 114, 117, 101], true), ([102, 97, 108, 115, 101], false)] := by decide
theorem uint_bits : 2 ^ Gen.envUintBits - 1 = 4294967295 ∧ Gen.envUintBase = 10 := by decide
theorem int64Max_eq : int64Max = 9223372036854775807 := by decide

/-! ## Byte facts -/

theorem isDigit_iff : ∀ c : UInt8, isDigit c = true ↔ IsDigit c :=
  forall_byte _ (by decide +kernel)
theorem digit_facts : ∀ c : UInt8, isDigit c = true → isSpace c = false ∧ c ≠ 45 ∧ c ≠ 43 ∧ digitVal c = c.toNat - 48 ∧ digitVal c ≤ 9 :=
  forall_byte _ (by decide +kernel)
theorem lower_letters : ∀ c : UInt8,
    (toLower c = 116 ↔ c = 116 ∨ c = 84) ∧ (toLower c = 114 ↔ c = 114 ∨ c = 82) ∧ (toLower c = 117 ↔ c = 117 ∨ c = 85) ∧
    (toLower c = 101 ↔ c = 101 ∨ c = 69) ∧ (toLower c = 102 ↔ c = 102 ∨ c = 70) ∧ (toLower c = 97 ↔ c = 97 ∨ c = 65) ∧
    (toLower c = 108 ↔ c = 108 ∨ c = 76) ∧ (toLower c = 115 ↔ c = 115 ∨ c = 83) :=
  forall_byte _ (by decide +kernel)

/-! ## Booleans -/

theorem ciEq_true_iff (s : Bytes) : ciEq s [116, 114, 117, 101] = true ↔ IsTrueWord s := by
  have hl : List.map toLower [116, 114, 117, 101] = [116, 114, 117, 101] := by decide
  unfold ciEq IsTrueWord
  rw [hl, beq_iff_eq]
  constructor
  · intro h
    rcases s with _ | ⟨a, _ | ⟨b, _ | ⟨c, _ | ⟨d, _ | ⟨e, t⟩⟩⟩⟩⟩ <;> simp at h
    · exact ⟨a, b, c, d, rfl, (lower_letters a).1.1 h.1, (lower_letters b).2.1.1 h.2.1, (lower_letters c).2.2.1.1 h.2.2.1,
        (lower_letters d).2.2.2.1.1 h.2.2.2⟩
  · rintro ⟨a, b, c, d, rfl, ha, hb, hc, hd⟩
    simp only [List.map_cons, List.map_nil]
    rw [(lower_letters a).1.2 ha, (lower_letters b).2.1.2 hb, (lower_letters c).2.2.1.2 hc, (lower_letters d).2.2.2.1.2 hd]

theorem ciEq_false_iff (s : Bytes) : ciEq s [102, 97, 108, 115, 101] = true ↔ IsFalseWord s := by
  have hl : List.map toLower [102, 97, 108, 115, 101] = [102, 97, 108, 115, 101] := by decide
  unfold ciEq IsFalseWord
  rw [hl, beq_iff_eq]
  constructor
  · intro h
    rcases s with _ | ⟨a, _ | ⟨b, _ | ⟨c, _ | ⟨d, _ | ⟨e, _ | ⟨f, t⟩⟩⟩⟩⟩⟩ <;> simp at h
    · exact ⟨a, b, c, d, e, rfl, (lower_letters a).2.2.2.2.1.1 h.1, (lower_letters b).2.2.2.2.2.1.1 h.2.1,
        (lower_letters c).2.2.2.2.2.2.1.1 h.2.2.1, (lower_letters d).2.2.2.2.2.2.2.1 h.2.2.2.1, (lower_letters e).2.2.2.1.1 h.2.2.2.2⟩
  · rintro ⟨a, b, c, d, e, rfl, ha, hb, hc, hd, he⟩
    simp only [List.map_cons, List.map_nil]
    rw [(lower_letters a).2.2.2.2.1.2 ha, (lower_letters b).2.2.2.2.2.1.2 hb, (lower_letters c).2.2.2.2.2.2.1.2 hc,
      (lower_letters d).2.2.2.2.2.2.2.2 hd, (lower_letters e).2.2.2.1.2 he]

theorem true_not_false (s : Bytes) : IsTrueWord s → ¬ IsFalseWord s := by
  rintro ⟨a, b, c, d, rfl, _⟩ ⟨a', b', c', d', e', h, _⟩
  simp at h

/-- the reader on a set value, in terms of the two words -/
theorem getBool_some (s : Bytes) :
    (s = [] → getBool (some s) = ⟨false, false⟩) ∧ (IsTrueWord s → getBool (some s) = ⟨true, true⟩) ∧
    (s ≠ [] → ¬ IsTrueWord s → getBool (some s) = ⟨true, false⟩) := by
  unfold getBool
  rw [bool_table]
  refine ⟨fun h0 => by subst h0; simp, fun ht => ?_, fun h0 ht => ?_⟩
  · have h0 : s ≠ [] := by rcases ht with ⟨a, b, c, d, rfl, _⟩; simp
    have : s.isEmpty = false := by cases s <;> simp_all
    simp [this, boolLookup, (ciEq_true_iff s).2 ht]
  · have : s.isEmpty = false := by cases s <;> simp_all
    have hc : ciEq s [116, 114, 117, 101] = false := by
      cases h : ciEq s [116, 114, 117, 101] with
      | false => rfl
      | true => exact absurd ((ciEq_true_iff s).1 h) ht
    simp only [this, boolLookup, hc, if_false, Bool.false_eq_true]
    by_cases hf : ciEq s [102, 97, 108, 115, 101] = true <;> simp [hf]

/-- **booleans, case-insensitively**: `true` in any spelling gives exactly `true`, `false` in any spelling gives exactly
    `false`, every other value (and an unset or empty variable) gives the default `false` -/
theorem parseBool_iff (env : Option Bytes) :
    (∀ s, env = some s → IsTrueWord s → getBool env = ⟨true, true⟩) ∧
    (∀ s, env = some s → IsFalseWord s → getBool env = ⟨true, false⟩) ∧
    ((¬ ∃ s, env = some s ∧ IsTrueWord s) → (getBool env).value = false) := by
  refine ⟨?_, ?_, ?_⟩
  · rintro s rfl ht
    exact (getBool_some s).2.1 ht
  · rintro s rfl hf
    have h0 : s ≠ [] := by rcases hf with ⟨a, b, c, d, e, rfl, _⟩; simp
    exact (getBool_some s).2.2 h0 (fun ht => true_not_false s ht hf)
  · intro h
    cases env with
    | none => rfl
    | some s =>
      have ht : ¬ IsTrueWord s := fun ht => h ⟨s, rfl, ht⟩
      by_cases h0 : s = []
      · rw [(getBool_some s).1 h0]
      · rw [(getBool_some s).2.2 h0 ht]

theorem parseBool_value_iff_true (env : Option Bytes) : (getBool env).value = true ↔ ∃ s, env = some s ∧ IsTrueWord s := by
  constructor
  · intro h
    apply Classical.byContradiction
    intro hn
    rw [(parseBool_iff env).2.2 hn] at h
    exact absurd h (by decide)
  · rintro ⟨s, rfl, ht⟩
    rw [(parseBool_iff (some s)).1 s rfl ht]

example : IsTrueWord [84, 114, 85, 101] := ⟨84, 114, 85, 101, rfl, by decide, by decide, by decide, by decide⟩   -- "TrUe"

/-- `OTEL_SDK_DISABLED` disables exactly for the word `true` -/
theorem sdkDisabled_iff (env : Option Bytes) : sdkDisabled env = true ↔ ∃ s, env = some s ∧ IsTrueWord s := by
  rw [← parseBool_value_iff_true]
  unfold sdkDisabled
  cases env with
  | none => simp [getBool]
  | some s =>
    by_cases h0 : s = []
    · rw [(getBool_some s).1 h0]; simp
    · by_cases ht : IsTrueWord s
      · rw [(getBool_some s).2.1 ht]; simp
      · rw [(getBool_some s).2.2 h0 ht]; simp

/-- a disabled SDK leaves the global provider as it was, otherwise the given provider is installed -/
theorem setProvider_spec {α} (env : Option Bytes) (current new : α) :
    ((∃ s, env = some s ∧ IsTrueWord s) → setProvider env current new = current) ∧
    ((¬ ∃ s, env = some s ∧ IsTrueWord s) → setProvider env current new = new) := by
  unfold setProvider
  constructor
  · intro h; rw [(sdkDisabled_iff env).2 h]; rfl
  · intro h
    have : sdkDisabled env = false := by
      cases hd : sdkDisabled env with
      | false => rfl
      | true => exact absurd ((sdkDisabled_iff env).1 hd) h
    rw [this]; rfl

/-! ## Decimal value: the model's left-to-right accumulation is the numeral's value -/

theorem leVal_append_single (ds : Bytes) (d : UInt8) : leVal (ds ++ [d]) = leVal ds + 10 ^ ds.length * (d.toNat - 48) := by
  induction ds with
  | nil => simp [leVal]
  | cons x t ih => simp only [List.cons_append, leVal, ih, List.length_cons, Nat.pow_succ]; rw [Nat.mul_add]; ac_rfl

theorem numVal_cons (d : UInt8) (t : Bytes) : numVal (d :: t) = (d.toNat - 48) * 10 ^ t.length + numVal t := by
  unfold numVal
  rw [List.reverse_cons, leVal_append_single, List.length_reverse]
  rw [Nat.add_comm, Nat.mul_comm]

theorem decFrom_eq (ds : Bytes) : ∀ acc, (∀ c ∈ ds, isDigit c = true) → decFrom acc ds = acc * 10 ^ ds.length + numVal ds := by
  induction ds with
  | nil => intro acc _; simp [decFrom, numVal, leVal]
  | cons d t ih =>
    intro acc h
    have hd := (digit_facts d (h d (by simp))).2.2.2.1
    have := ih (acc * 10 + digitVal d) (fun c hc => h c (by simp [hc]))
    unfold decFrom at this ⊢
    rw [List.foldl_cons, this, numVal_cons, hd, List.length_cons, Nat.pow_succ, Nat.add_mul, Nat.mul_assoc, Nat.mul_comm 10]
    rw [Nat.add_assoc]

theorem decVal_eq (ds : Bytes) (h : ∀ c ∈ ds, isDigit c = true) : decVal ds = numVal ds := by
  unfold decVal; rw [decFrom_eq ds 0 h]; simp

theorem le_decFrom (ds : Bytes) : ∀ acc, acc ≤ decFrom acc ds := by
  induction ds with
  | nil => intro acc; simp [decFrom]
  | cons d t ih =>
    intro acc
    have := ih (acc * 10 + digitVal d)
    unfold decFrom at this ⊢
    rw [List.foldl_cons]
    omega

/-! ## Unsigned integers -/

theorem takeWhile_eq_self_of_length {p : UInt8 → Bool} (l : Bytes) (h : (l.takeWhile p).length = l.length) :
    l.takeWhile p = l :=
  (List.takeWhile_prefix p).eq_of_length h

theorem takeWhile_all {p : UInt8 → Bool} (l : Bytes) (h : ∀ c ∈ l, p c = true) : l.takeWhile p = l := by
  induction l with
  | nil => rfl
  | cons c t ih => simp [h c (by simp), ih (fun x hx => h x (by simp [hx]))]

/-- `strtoull` on a string that starts with a digit: no white space, no sign; the longest digit prefix is converted -/
theorem strtoull_digit_head (c : UInt8) (t : Bytes) (hc : isDigit c = true) :
    strtoull (c :: t) =
      if 2 ^ 64 ≤ decVal ((c :: t).takeWhile isDigit) then ⟨2 ^ 64 - 1, ((c :: t).takeWhile isDigit).length, true⟩
      else ⟨decVal ((c :: t).takeWhile isDigit), ((c :: t).takeWhile isDigit).length, false⟩ := by
  obtain ⟨hs, h45, h43, _, _⟩ := digit_facts c hc
  have hdw : (c :: t).dropWhile isSpace = c :: t := by simp [hs]
  have hne : ((c :: t).takeWhile isDigit).isEmpty = false := by simp [hc]
  unfold strtoull
  simp only [hdw, List.head?_cons, Nat.sub_self]
  have h1 : (some c == some (45 : UInt8)) = false := by simp [h45]
  have h2 : (some c == some (43 : UInt8)) = false := by simp [h43]
  simp only [h1, h2, Bool.or_self, Bool.false_eq_true, if_false, hne, Nat.zero_add]

theorem mem_takeWhile_imp {p : UInt8 → Bool} : ∀ (l : Bytes) (x : UInt8), x ∈ l.takeWhile p → p x = true := by
  intro l
  induction l with
  | nil => intro x hx; simp at hx
  | cons c t ih =>
    intro x hx
    rw [List.takeWhile_cons] at hx
    by_cases hc : p c = true
    · simp only [hc, if_true, List.mem_cons] at hx
      rcases hx with rfl | hx
      · exact hc
      · exact ih x hx
    · simp [hc] at hx

/-- `GetUintEnvironmentVariable` on a set value, as one chain of conditions -/
theorem getUint_some (e : Bool) (s : Bytes) : getUint e (some s) =
    if s.isEmpty then ⟨false, 0⟩
    else if (strtoull s).erange then ⟨false, 0⟩
    else if (strtoull s).endOff = s.length ∧ (s.head?.map isDigit).getD false = true ∧ (strtoull s).value ≤ 2 ^ Gen.envUintBits - 1
      then ⟨true, (strtoull s).value⟩ else ⟨false, 0⟩ := by
  simp only [getUint, getUintWith]
  by_cases h0 : s.isEmpty = true
  · simp [h0]
  · by_cases h1 : (strtoull s).erange = true
    · simp [h0, h1]
    · by_cases h2 : (strtoull s).endOff = s.length
      · by_cases h3 : (s.head?.map isDigit).getD false = true
        · by_cases h4 : (strtoull s).value ≤ 2 ^ Gen.envUintBits - 1
          · have : ¬ (2 ^ Gen.envUintBits - 1 < (strtoull s).value) := by omega
            simp [h0, h1, h2, h3, h4, this]
          · have : (2 ^ Gen.envUintBits - 1 < (strtoull s).value) := by omega
            simp [h0, h1, h2, h3, h4, this]
        · simp [h0, h1, h2, h3]
      · simp [h0, h1, h2]

/-- the reader on a value that starts with a digit -/
theorem getUint_digit_head (errnoIn : Bool) (c : UInt8) (t : Bytes) (hc : isDigit c = true) :
    getUint errnoIn (some (c :: t)) =
      if 2 ^ 64 ≤ decVal ((c :: t).takeWhile isDigit) then ⟨false, 0⟩
      else if ((c :: t).takeWhile isDigit).length = (c :: t).length ∧ decVal ((c :: t).takeWhile isDigit) ≤ 4294967295
        then ⟨true, decVal ((c :: t).takeWhile isDigit)⟩ else ⟨false, 0⟩ := by
  rw [getUint_some, uint_bits.1, strtoull_digit_head c t hc]
  generalize (c :: t).takeWhile isDigit = ds
  by_cases hbig : 2 ^ 64 ≤ decVal ds
  · simp [hbig]
  · simp [hbig, hc]

/-- **unsigned integers within 32 bits**: the reader returns `true` with value `v` exactly for the decimal numerals of
    `v ≤ 4294967295`, whatever `errno` held on entry -/
theorem parseUint32_iff_documented (errnoIn : Bool) (s : Bytes) (v : Nat) :
    getUint errnoIn (some s) = ⟨true, v⟩ ↔ UintSyntax s v := by
  cases s with
  | nil => simp [getUint, getUintWith, UintSyntax]
  | cons c t =>
    by_cases hc : isDigit c = true
    · rw [getUint_digit_head errnoIn c t hc]
      unfold UintSyntax
      generalize hds : (c :: t).takeWhile isDigit = ds
      constructor
      · intro h
        by_cases hbig : 2 ^ 64 ≤ decVal ds
        · rw [if_pos hbig] at h; simp at h
        · rw [if_neg hbig] at h
          by_cases hok : ds.length = (c :: t).length ∧ decVal ds ≤ 4294967295
          · rw [if_pos hok] at h
            have hself : ds = c :: t := by rw [← hds]; exact takeWhile_eq_self_of_length _ (by rw [hds]; exact hok.1)
            have hall' : ∀ x ∈ c :: t, isDigit x = true := by
              intro x hx; rw [← hself, ← hds] at hx; exact mem_takeWhile_imp _ x hx
            have hv : decVal ds = v := by simpa using h
            refine ⟨by simp, fun x hx => (isDigit_iff x).1 (hall' x hx), ?_, ?_⟩
            · rw [← decVal_eq _ hall', ← hself]; exact hv
            · omega
          · rw [if_neg hok] at h; simp at h
      · rintro ⟨_, hall, hv, hle⟩
        have hall' : ∀ x ∈ c :: t, isDigit x = true := fun x hx => (isDigit_iff x).2 (hall x hx)
        have hself : ds = c :: t := by rw [← hds]; exact takeWhile_all _ hall'
        have hval : decVal ds = v := by rw [hself, decVal_eq _ hall', hv]
        have hbig : ¬ 2 ^ 64 ≤ decVal ds := by omega
        have hok : ds.length = (c :: t).length ∧ decVal ds ≤ 4294967295 := ⟨by rw [hself], by omega⟩
        rw [if_neg hbig, if_pos hok, hval]
    · -- first character is not a digit: rejected by the model, and not a numeral
      have hc' : isDigit c = false := by simpa using hc
      constructor
      · intro h
        rw [getUint_some] at h
        simp [hc'] at h
      · rintro ⟨_, hall, _, _⟩
        exact absurd ((isDigit_iff c).2 (hall c (by simp))) hc

example : UintSyntax [52, 50] 42 := ⟨by simp, by decide, by decide, by decide⟩

/-- every other string (and an unset or empty variable) gives the documented default: `false`, value 0 — never a partial value -/
theorem parseUint32_default_otherwise (errnoIn : Bool) (env : Option Bytes)
    (h : ¬ ∃ s v, env = some s ∧ UintSyntax s v) : getUint errnoIn env = ⟨false, 0⟩ := by
  cases env with
  | none => rfl
  | some s =>
    have key : ∀ v, getUint errnoIn (some s) ≠ ⟨true, v⟩ :=
      fun v hv => h ⟨s, v, rfl, (parseUint32_iff_documented errnoIn s v).1 hv⟩
    rw [getUint_some] at key ⊢
    split
    · rfl
    · split
      · rfl
      · split
        · rename_i h1 h2 h3
          rw [if_neg h1, if_neg h2, if_pos h3] at key
          exact absurd rfl (key _)
        · rfl

/-- the incoming `errno` has no influence (D15: before the fix a stale `ERANGE` made every value invalid) -/
theorem parseUint32_errno_irrelevant (env : Option Bytes) : getUint true env = getUint false env := rfl

/-! The reader before the D15 fix (`getUintAsWas`), on the witnesses replayed against the implementation -/
-- " 5"
theorem parseUint32_aswas_witness_space : getUintAsWas false (some [32, 53]) = ⟨true, 5⟩ ∧ ¬ UintSyntax [32, 53] 5 := by
  refine ⟨by decide +kernel, fun h => ?_⟩
  exact absurd (h.2.1 32 (by simp)) (by decide)
-- "+5"
theorem parseUint32_aswas_witness_plus : getUintAsWas false (some [43, 53]) = ⟨true, 5⟩ ∧ ¬ UintSyntax [43, 53] 5 := by
  refine ⟨by decide +kernel, fun h => ?_⟩
  exact absurd (h.2.1 43 (by simp)) (by decide)
-- "-18446744073709551615" is read as 1
theorem parseUint32_aswas_witness_wrap :
    getUintAsWas false (some [45, 49, 56, 52, 52, 54, 55, 52, 52, 48, 55, 51, 55, 48, 57, 53, 53, 49, 54, 49, 53]) = ⟨true, 1⟩ := by
  decide +kernel
-- "42" under a stale ERANGE is rejected although it is a documented numeral
theorem parseUint32_aswas_witness_stale_errno : getUintAsWas true (some [52, 50]) = ⟨false, 0⟩ ∧ UintSyntax [52, 50] 42 :=
  ⟨by decide +kernel, by simp, by decide, by decide, by decide⟩

/-! ## Durations -/

theorem unitLookup_iff : ∀ (tab : List (Bytes × Nat)), (tab.map (·.1)).Nodup → ∀ u m,
    (unitLookup tab u = some m ↔ (u, m) ∈ tab) := by
  intro tab
  induction tab with
  | nil => intro _ u m; simp [unitLookup]
  | cons p rest ih =>
    obtain ⟨u', m'⟩ := p
    intro hnd u m
    simp only [List.map_cons, List.nodup_cons] at hnd
    simp only [unitLookup, List.mem_cons, Prod.mk.injEq]
    by_cases hu : u = u'
    · subst hu
      simp only [beq_self_eq_true, if_true, Option.some.injEq, true_and]
      constructor
      · intro h; exact Or.inl h.symm
      · rintro (h | h)
        · exact h.symm
        · exact absurd (List.mem_map.2 ⟨(u, m), h, rfl⟩) hnd.1
    · have : (u == u') = false := by simpa using hu
      simp only [this, Bool.false_eq_true, if_false, hu, false_and, false_or]
      exact ih hnd.2 u m

theorem unitTable_nodup : (unitTable.map (·.1)).Nodup := by decide
theorem unitTable_pos : ∀ p ∈ unitTable, 0 < p.2 := by decide
/-- no unit starts with a digit: the digit loop ends exactly where the unit begins -/
theorem unitTable_head : ∀ p ∈ unitTable, ∀ c, p.1.head? = some c → isDigit c = false := by decide

theorem dropWhile_ws (ws rest : Bytes) (hws : ∀ c ∈ ws, isSpace c = true)
    (hr : ∀ c, rest.head? = some c → isSpace c = false) : (ws ++ rest).dropWhile isSpace = rest := by
  rw [List.dropWhile_append_of_pos hws]
  cases rest with
  | nil => rfl
  | cons c t => simp [hr c rfl]

/-- the digit loop with the overflow guard, on `digits ++ rest`: the numeral's value if it fits `int64_t`, else rejected -/
theorem accum_guard_spec (ds : Bytes) : ∀ (acc : Nat) (u : Bytes), acc ≤ int64Max → (∀ c ∈ ds, isDigit c = true) →
    (∀ c, u.head? = some c → isDigit c = false) →
    accum true acc (ds ++ u) = if decFrom acc ds ≤ int64Max then .val (decFrom acc ds) u else .rejected := by
  induction ds with
  | nil =>
    intro acc u hacc _ hu
    cases u with
    | nil => simp [accum, decFrom, hacc]
    | cons c t => simp [accum, decFrom, hu c rfl, hacc]
  | cons d t ih =>
    intro acc u hacc hd hu
    have hdig := hd d (by simp)
    have h9 := (digit_facts d hdig).2.2.2.2
    have hstep : decFrom acc (d :: t) = decFrom (acc * 10 + digitVal d) t := by simp [decFrom]
    rw [List.cons_append, accum, if_pos hdig, hstep]
    have hM := int64Max_eq
    by_cases hg : acc > (int64Max - digitVal d) / 10
    · have hbig : ¬ decFrom (acc * 10 + digitVal d) t ≤ int64Max := by
        have := le_decFrom t (acc * 10 + digitVal d)
        omega
      simp [hg, hbig]
    · have hfit : ¬ (acc * 10 + digitVal d > int64Max) := by omega
      simp only [hg, decide_false, Bool.and_false, Bool.false_eq_true, if_false, hfit]
      exact ih _ u (by omega) (fun c hc => hd c (by simp [hc])) hu

/-- whatever the digit loop returns as `val`, the input was `digits ++ rest` and the result the digits' value -/
theorem accum_val_inv (g : Bool) : ∀ (s : Bytes) (acc r : Nat) (u : Bytes), accum g acc s = .val r u →
    ∃ ds, s = ds ++ u ∧ (∀ c ∈ ds, isDigit c = true) ∧ (∀ c, u.head? = some c → isDigit c = false) ∧ r = decFrom acc ds := by
  intro s
  induction s with
  | nil =>
    intro acc r u h
    simp only [accum, Acc.val.injEq] at h
    exact ⟨[], by simp [h.2.symm], by simp, by simp [h.2.symm], by simp [decFrom, h.1]⟩
  | cons c t ih =>
    intro acc r u h
    rw [accum] at h
    by_cases hc : isDigit c = true
    · rw [if_pos hc] at h
      dsimp only at h
      split at h
      · simp at h
      · split at h
        · simp at h
        · obtain ⟨ds, h1, h2, h3, h4⟩ := ih _ r u h
          refine ⟨c :: ds, by simp [h1], ?_, h3, by simp [decFrom] at h4 ⊢; exact h4⟩
          intro x hx
          rcases List.mem_cons.1 hx with rfl | hx
          · exact hc
          · exact h2 x hx
    · rw [if_neg hc] at h
      simp only [Acc.val.injEq] at h
      refine ⟨[], by simp [h.2.symm], by simp, ?_, by simp [decFrom, h.1]⟩
      intro x hx
      rw [← h.2] at hx
      simp only [List.head?_cons, Option.some.injEq] at hx
      subst hx
      simpa using hc

/-- with the guard the loop never overflows -/
theorem accum_guard_no_ub : ∀ (s : Bytes) (acc : Nat), accum true acc s ≠ .ub := by
  intro s
  induction s with
  | nil => intro acc; simp [accum]
  | cons c t ih =>
    intro acc
    rw [accum]
    have hM := int64Max_eq
    by_cases hc : isDigit c = true
    · rw [if_pos hc]
      have h9 := (digit_facts c hc).2.2.2.2
      by_cases hg : acc > (int64Max - digitVal c) / 10
      · simp [hg]
      · have hfit : ¬ (acc * 10 + digitVal c > int64Max) := by omega
        simp only [hg, decide_false, Bool.and_false, Bool.false_eq_true, if_false, hfit]
        exact ih _
    · rw [if_neg hc]; simp

theorem toSystemClock_guard (count m : Nat) (hm : 0 < m) :
    toSystemClock true count m = if count * m ≤ int64Max then .ok (count * m) else .invalid := by
  unfold toSystemClock
  have key : count > int64Max / m ↔ ¬ count * m ≤ int64Max := by
    rw [gt_iff_lt, Nat.div_lt_iff_lt_mul hm]; omega
  by_cases h : count * m ≤ int64Max
  · have : ¬ count > int64Max / m := fun hh => (key.1 hh) h
    have h' : ¬ count * m > int64Max := by omega
    simp [this, h, h']
  · have : count > int64Max / m := key.2 h
    simp [this, h]

/-- **durations: digits with an optional ns/us/ms/s/m/h unit.**  The reader returns `true` with `ns` nanoseconds exactly
    for the strings of the documented syntax that denote `ns` -/
theorem parseDuration_iff_documented (s : Bytes) (ns : Nat) : getDuration (some s) = .ok ns ↔ DurationSyntax s ns := by
  have hM := int64Max_eq
  unfold getDuration getDurationWith DurationSyntax
  constructor
  · intro h
    by_cases h0 : s.isEmpty = true
    · simp [h0] at h
    · simp only [h0, Bool.false_eq_true, if_false] at h
      unfold timeoutFromString at h
      rw [unit_table] at h
      generalize hacc : accum true 0 (s.dropWhile isSpace) = a at h
      cases a with
      | rejected => simp at h
      | ub => simp at h
      | val result unit =>
        simp only at h
        by_cases hz : result = 0
        · simp [hz] at h
        · simp only [hz, if_false] at h
          cases hl : unitLookup unitTable unit with
          | none => simp [hl] at h
          | some m =>
            simp only [hl] at h
            have hmem := (unitLookup_iff unitTable unitTable_nodup unit m).1 hl
            have hpos := unitTable_pos _ hmem
            rw [toSystemClock_guard result m hpos] at h
            by_cases hfit : result * m ≤ int64Max
            · simp only [hfit, if_true, DurOut.ok.injEq] at h
              obtain ⟨ds, h1, h2, _, h4⟩ := accum_val_inv true _ 0 result unit hacc
              have hres : result = numVal ds := by rw [h4]; exact decVal_eq ds h2
              refine ⟨s.takeWhile isSpace, ds, unit, m, ?_, fun c hc => mem_takeWhile_imp _ c hc, ?_, ?_, hmem, ?_, ?_, ?_⟩
              · rw [List.append_assoc, ← h1]; exact List.takeWhile_append_dropWhile.symm
              · intro hnil; subst hnil; simp [decFrom] at h4; exact hz h4
              · exact fun c hc => (isDigit_iff c).1 (h2 c hc)
              · rw [← hres]; exact hz
              · rw [← hres, ← h]
              · rw [← h]; omega
            · simp [hfit] at h
  · rintro ⟨ws, ds, u, m, rfl, hws, hne, hds, hmem, hnz, hns, hle⟩
    have hds' : ∀ c ∈ ds, isDigit c = true := fun c hc => (isDigit_iff c).2 (hds c hc)
    have hpos := unitTable_pos _ hmem
    have hhead := unitTable_head _ hmem
    have hne' : (ws ++ ds ++ u).isEmpty = false := by cases ds <;> simp_all
    simp only [hne', Bool.false_eq_true, if_false]
    unfold timeoutFromString
    rw [unit_table, List.append_assoc, dropWhile_ws ws (ds ++ u) hws]
    · rw [accum_guard_spec ds 0 u (by omega) hds' hhead]
      have hval : decFrom 0 ds = numVal ds := decVal_eq ds hds'
      have hfit : numVal ds ≤ int64Max := by
        have : numVal ds * 1 ≤ numVal ds * m := Nat.mul_le_mul_left _ hpos
        omega
      rw [hval, if_pos hfit]
      simp only [hnz, if_false]
      rw [(unitLookup_iff unitTable unitTable_nodup u m).2 hmem]
      simp only
      rw [toSystemClock_guard _ m hpos, if_pos (by omega), hns]
    · intro c hc
      cases ds with
      | nil => exact absurd rfl hne
      | cons d t =>
        simp only [List.cons_append, List.head?_cons, Option.some.injEq] at hc
        subst hc
        exact (digit_facts _ (hds' _ (by simp))).1

example : DurationSyntax [49, 53, 109, 115] 15000000 :=     -- "15ms"
  ⟨[], [49, 53], [109, 115], 1000000, rfl, by simp, by simp, by decide, by decide, by decide, by decide, by decide⟩

/-- the explicit signed-overflow token is unreachable: neither the digit loop nor the unit conversion overflows (D15) -/
theorem parseDuration_never_ub (env : Option Bytes) : getDuration env ≠ .ub := by
  unfold getDuration getDurationWith
  cases env with
  | none => simp
  | some s =>
    simp only
    split
    · simp
    · unfold timeoutFromString
      generalize hacc : accum true 0 (s.dropWhile isSpace) = a
      cases a with
      | rejected => simp
      | ub => exact absurd hacc (accum_guard_no_ub _ _)
      | val result unit =>
        simp only
        split
        · simp
        · split
          · rename_i m _
            unfold toSystemClock
            by_cases hg : result > int64Max / m
            · simp [hg]
            · have : result * m ≤ int64Max := by
                have h1 : result ≤ int64Max / m := by omega
                calc result * m ≤ (int64Max / m) * m := Nat.mul_le_mul_right _ h1
                  _ ≤ int64Max := Nat.div_mul_le_self _ _
              have h' : ¬ result * m > int64Max := by omega
              simp [hg, h']
          · simp

/-- every other string falls back: `false` is returned and the caller's value is left as it was (`invalid`), or set to
    zero when the variable is unset or empty (`unset`) — never a partial value, never undefined behaviour -/
theorem parseDuration_default_otherwise (env : Option Bytes) (h : ¬ ∃ s ns, env = some s ∧ DurationSyntax s ns) :
    getDuration env = .invalid ∨ getDuration env = .unset := by
  cases hres : getDuration env with
  | invalid => exact Or.inl rfl
  | unset => exact Or.inr rfl
  | ub => exact absurd hres (parseDuration_never_ub env)
  | ok ns =>
    cases env with
    | none => simp [getDuration, getDurationWith] at hres
    | some s => exact absurd ⟨s, ns, rfl, (parseDuration_iff_documented s ns).1 hres⟩ h

/-! The reader before the D15 fix (`getDurationAsWas`): signed overflow in the digit loop and in the unit conversion -/
-- "99999999999999999999s"
theorem parseDuration_aswas_witness_ub :
    getDurationAsWas (some [57, 57, 57, 57, 57, 57, 57, 57, 57, 57, 57, 57, 57, 57, 57, 57, 57, 57, 57, 57, 115]) = .ub := by
  decide +kernel
-- "9223372037s": the digits fit, 9223372037·10⁹ ns does not
theorem parseDuration_aswas_witness_convert_ub :
    getDurationAsWas (some [57, 50, 50, 51, 51, 55, 50, 48, 51, 55, 115]) = .ub := by
  decide +kernel

/-! ## Floats: acceptance only -/

/-- a value `strtof` flags as out of range is rejected: the default 0 is returned, never ±HUGE_VAL or a denormal -/
theorem parseFloat_rejects_on_range_error (errnoIn : Bool) (env : Option Bytes) : getFloatOk errnoIn true env = false := by
  unfold getFloatOk getFloatOkWith
  cases env with
  | none => rfl
  | some s => by_cases h : s.isEmpty = true <;> simp [h]

/-- the incoming `errno` has no influence (D15: the same stale-`ERANGE` defect as in the uint reader) -/
theorem parseFloat_errno_irrelevant (rangeErr : Bool) (env : Option Bytes) :
    getFloatOk true rangeErr env = getFloatOk false rangeErr env := rfl

theorem drop_takeWhile_append (p : UInt8 → Bool) (ds rest : Bytes) (hds : ∀ c ∈ ds, p c = true)
    (hr : ∀ c, rest.head? = some c → p c = false) :
    (ds ++ rest).takeWhile p = ds ∧ (ds ++ rest).drop ds.length = rest := by
  constructor
  · induction ds with
    | nil =>
      cases rest with
      | nil => rfl
      | cons c t => simp [hr c rfl]
    | cons d t ih =>
      simp only [List.cons_append, List.takeWhile_cons, hds d (by simp), if_true, List.cons.injEq, true_and]
      exact ih (fun c hc => hds c (by simp [hc]))
  · simp

theorem hasPrefixCi_head_ne (l0 : UInt8) (lt : Bytes) (c : UInt8) (t : Bytes) (h : toLower c ≠ l0) :
    hasPrefixCi (l0 :: lt) (c :: t) = false := by
  simp [hasPrefixCi, h]

/-- plain decimals `digits` and `digits.digits` in range are accepted whatever `errno` was -/
theorem parseFloat_accepts_decimal (errnoIn : Bool) (ip fp : Bytes) (hip : ip ≠ []) (h1 : ∀ c ∈ ip, IsDigit c)
    (h2 : ∀ c ∈ fp, IsDigit c) :
    getFloatOk errnoIn false (some ip) = true ∧ getFloatOk errnoIn false (some (ip ++ 46 :: fp)) = true := by
  have d1 : ∀ c ∈ ip, isDigit c = true := fun c hc => (isDigit_iff c).2 (h1 c hc)
  have d2 : ∀ c ∈ fp, isDigit c = true := fun c hc => (isDigit_iff c).2 (h2 c hc)
  obtain ⟨c0, t0, rfl⟩ : ∃ c t, ip = c :: t := by cases ip with
    | nil => exact absurd rfl hip
    | cons c t => exact ⟨c, t, rfl⟩
  have hc0 := d1 c0 (by simp)
  obtain ⟨hsp, h45, h43, _, _⟩ := digit_facts c0 hc0
  -- facts about the first character: not white space, no sign, not one of i n 0x… prefixes that would match
  have hlow : ∀ c : UInt8, isDigit c = true → toLower c ≠ 105 ∧ toLower c ≠ 110 ∧ toLower c = c ∧ isDigit 46 = false ∧
      toLower 46 ≠ 101 := forall_byte _ (by decide +kernel)
  have key : ∀ (rest : Bytes), (rest = [] ∨ ∃ fp', rest = 46 :: fp' ∧ ∀ c ∈ fp', isDigit c = true) →
      getFloatOk errnoIn false (some (c0 :: t0 ++ rest)) = true := by
    intro rest hrest
    have hs : (c0 :: t0 ++ rest) = c0 :: (t0 ++ rest) := rfl
    unfold getFloatOk getFloatOkWith
    simp only [hs, List.isEmpty_cons, Bool.false_eq_true, if_false, if_true, Bool.false_or, Bool.not_false, Bool.true_and,
      beq_iff_eq]
    unfold strtofEnd
    have hdw : (c0 :: (t0 ++ rest)).dropWhile isSpace = c0 :: (t0 ++ rest) := by simp [hsp]
    simp only [hdw, Nat.sub_self, Nat.zero_add]
    have hsign : ((c0 == 43 || c0 == 45) = false) := by simp [h43, h45]
    simp only [hsign, Bool.false_eq_true, if_false, List.drop_zero]
    -- the body is decimal
    have hx : hasPrefixCi [48, 120] (c0 :: (t0 ++ rest)) = false := by
      cases htr : t0 ++ rest with
      | nil => simp [hasPrefixCi]
      | cons x xs =>
        -- x is a digit or '.', so toLower x ≠ 'x'
        have hxd : isDigit x = true ∨ x = 46 := by
          cases t0 with
          | nil =>
            rcases hrest with rfl | ⟨fp', rfl, _⟩
            · simp at htr
            · simp at htr; exact Or.inr htr.1.symm
          | cons y ys =>
            simp at htr
            exact Or.inl (htr.1 ▸ d1 y (by simp))
        have : ∀ x : UInt8, (isDigit x = true ∨ x = 46) → toLower x ≠ 120 := forall_byte _ (by decide +kernel)
        have hne := this x hxd
        simp [hasPrefixCi, hne]
    have hbody : floatBodyLen (c0 :: (t0 ++ rest)) = mantLen isDigit 101 (c0 :: (t0 ++ rest)) := by
      have l := hlow c0 hc0
      unfold floatBodyLen
      rw [hasPrefixCi_head_ne _ _ _ _ l.1, hasPrefixCi_head_ne _ _ _ _ l.1, hasPrefixCi_head_ne _ _ _ _ l.2.1, hx]
      simp
    rw [hbody]
    -- the mantissa
    have hmant : mantLen isDigit 101 (c0 :: (t0 ++ rest)) = (c0 :: (t0 ++ rest)).length := by
      rcases hrest with rfl | ⟨fp', rfl, hfp'⟩
      · have hall : ∀ c ∈ c0 :: t0, isDigit c = true := d1
        have htw := drop_takeWhile_append isDigit (c0 :: t0) [] hall (by simp)
        simp only [List.append_nil] at htw ⊢
        unfold mantLen
        simp only [htw.1, List.drop_length]
        simp [expLen]
      · have hall : ∀ c ∈ c0 :: t0, isDigit c = true := d1
        have hdot : ∀ c, (46 :: fp' : Bytes).head? = some c → isDigit c = false := by
          intro c hc; simp at hc; subst hc; decide
        have htw := drop_takeWhile_append isDigit (c0 :: t0) (46 :: fp') hall hdot
        have htw2 := drop_takeWhile_append isDigit fp' [] hfp' (by simp)
        simp only [List.append_nil] at htw2
        have hs' : c0 :: (t0 ++ 46 :: fp') = (c0 :: t0) ++ 46 :: fp' := rfl
        unfold mantLen
        rw [hs']
        simp only [htw.1, htw.2, htw2.1]
        have hlen : ((c0 :: t0).length + (1 + fp'.length)) = ((c0 :: t0) ++ 46 :: fp').length := by simp; omega
        have hdrop : List.drop ((c0 :: t0).length + (1 + fp'.length)) ((c0 :: t0) ++ 46 :: fp') = [] := by
          rw [hlen]; exact List.drop_length
        simp only [List.isEmpty_cons, Bool.false_and, Bool.false_eq_true, if_false, hdrop, expLen, Nat.add_zero]
        exact hlen
    rw [hmant]
    simp
  refine ⟨?_, ?_⟩
  · have := key [] (Or.inl rfl)
    simpa using this
  · exact key (46 :: fp) (Or.inr ⟨fp, rfl, d2⟩)

example : getFloatOk true false (some [49, 46, 53]) = true := by decide +kernel    -- "1.5"

/-! ## Resources -/
section Resources
open Otel.Resource

/-- the keys named in the property text -/
def kServiceName : Bytes := [115, 101, 114, 118, 105, 99, 101, 46, 110, 97, 109, 101]                    -- service.name
def kSdkLanguage : Bytes := [116, 101, 108, 101, 109, 101, 116, 114, 121, 46, 115, 100, 107, 46, 108, 97, 110, 103, 117, 97, 103, 101]
def kSdkName : Bytes := [116, 101, 108, 101, 109, 101, 116, 114, 121, 46, 115, 100, 107, 46, 110, 97, 109, 101]
def kSdkVersion : Bytes := [116, 101, 108, 101, 109, 101, 116, 114, 121, 46, 115, 100, 107, 46, 118, 101, 114, 115, 105, 111, 110]
def kProcessExe : Bytes := [112, 114, 111, 99, 101, 115, 115, 46, 101, 120, 101, 99, 117, 116, 97, 98, 108, 101, 46, 110, 97, 109, 101]
def unknownService : Bytes := [117, 110, 107, 110, 111, 119, 110, 95, 115, 101, 114, 118, 105, 99, 101]   -- unknown_service

theorem resource_keys : Gen.resServiceNameKey = kServiceName ∧ Gen.resProcessExeKey = kProcessExe ∧
    Gen.resUnknownService = unknownService ∧ Gen.resUnknownServiceSep = [58] ∧ Gen.resListSep = 44 ∧ Gen.resKvSep = 61 := by decide

/-- `a <|> b` on lookups: the first if present, else the second -/
def orElse (a b : Option Val) : Option Val := match a with | some v => some v | none => b

theorem lookup_append (m n : Attrs) (k : Bytes) : lookup (m ++ n) k = orElse (lookup m k) (lookup n k) := by
  induction m with
  | nil => rfl
  | cons p t ih =>
    obtain ⟨k', v⟩ := p
    simp only [List.cons_append, lookup]
    by_cases h : k' = k
    · simp [h, orElse]
    · simp [h, ih]

theorem lookup_set (m : Attrs) (k' : Bytes) (v : Val) (k : Bytes) :
    lookup (Resource.set m k' v) k = if k' = k then some v else lookup m k := by
  induction m with
  | nil => simp [Resource.set, lookup]
  | cons p t ih =>
    obtain ⟨k0, v0⟩ := p
    simp only [Resource.set]
    by_cases h0 : k0 = k'
    · subst h0
      simp only [if_true, lookup]
      by_cases h1 : k0 = k <;> simp [h1]
    · simp only [h0, if_false, lookup, ih]
      by_cases h1 : k0 = k
      · subst h1
        have : ¬ k' = k0 := fun h => h0 h.symm
        simp [this]
      · simp [h1]

theorem lookup_insertNew (m : Attrs) (kv : Bytes × Val) (k : Bytes) :
    lookup (insertNew m kv) k = orElse (lookup m k) (if kv.1 = k then some kv.2 else none) := by
  unfold insertNew
  cases h : lookup m kv.1 with
  | some v =>
    simp only
    by_cases hk : kv.1 = k
    · rw [← hk, h]; rfl
    · simp only [hk, if_false]; cases lookup m k <;> rfl
  | none =>
    simp only
    rw [lookup_append]
    simp [lookup]

theorem lookup_foldl_insertNew (l : Attrs) : ∀ (m : Attrs) (k : Bytes),
    lookup (l.foldl insertNew m) k = orElse (lookup m k) (lookup l k) := by
  induction l with
  | nil => intro m k; simp only [List.foldl_nil, lookup]; cases lookup m k <;> rfl
  | cons p t ih =>
    intro m k
    rw [List.foldl_cons, ih, lookup_insertNew]
    obtain ⟨k', v⟩ := p
    simp only [lookup]
    cases lookup m k with
    | some x => rfl
    | none =>
      by_cases h : k' = k
      · simp [h, orElse]
      · simp [h, orElse]

/-- **`a.Merge(b)` contains the union of both with `b`'s value winning on every shared key**, for all attribute maps -/
theorem merge_union_right_biased (a b : Res) (k : Bytes) :
    lookup (merge a b).attrs k = orElse (lookup b.attrs k) (lookup a.attrs k) := by
  unfold merge
  exact lookup_foldl_insertNew a.attrs b.attrs k

/-- the merged key set is exactly the union -/
theorem merge_keys_union (a b : Res) (k : Bytes) :
    (lookup (merge a b).attrs k).isSome = ((lookup a.attrs k).isSome || (lookup b.attrs k).isSome) := by
  rw [merge_union_right_biased]
  cases lookup a.attrs k <;> cases lookup b.attrs k <;> rfl

/-- **…and `b`'s schema URL unless it is empty** -/
theorem merge_schema (a b : Res) : (merge a b).schema = if b.schema = [] then a.schema else b.schema := by
  unfold merge
  cases hb : b.schema <;> simp

example : merge ⟨[([97], .str [49])], [117]⟩ ⟨[([97], .str [50])], []⟩ = ⟨[([97], .str [50])], [117]⟩ := by decide

/-- **…and leaves `a` and `b` unchanged**: in a store of resources a `Merge` (or a construction) only appends; every
    resource that existed before, in particular both operands, is what it was -/
theorem merge_pure (st : List Res) (op : Op) (i : Nat) (hi : i < st.length) : (step st op)[i]? = st[i]? := by
  cases op with
  | mk a s => simp only [step]; rw [List.getElem?_append_left hi]
  | merge x y =>
    simp only [step]
    split
    · rw [List.getElem?_append_left hi]
    · rfl

theorem merge_result (st : List Res) (i j : Nat) (a b : Res) (ha : st[i]? = some a) (hb : st[j]? = some b) :
    step st (.merge i j) = st ++ [merge a b] := by
  simp [step, ha, hb]

theorem run_length_le (ops : List Op) : ∀ st, st.length ≤ (run st ops).length := by
  induction ops with
  | nil => intro st; exact Nat.le_refl _
  | cons op t ih =>
    intro st
    have h1 : st.length ≤ (step st op).length := by
      cases op with
      | mk a s => simp [step]
      | merge x y => simp only [step]; split <;> simp
    exact Nat.le_trans h1 (ih _)

/-- over every history of constructions and merges, no existing resource ever changes -/
theorem merge_pure_history (ops : List Op) : ∀ (st : List Res) (i : Nat), i < st.length → (run st ops)[i]? = st[i]? := by
  induction ops with
  | nil => intro st i _; rfl
  | cons op t ih =>
    intro st i hi
    have h1 : st.length ≤ (step st op).length := run_length_le [op] st
    show (run (step st op) t)[i]? = st[i]?
    rw [ih (step st op) i (by omega), merge_pure st op i hi]

/-- the SDK defaults named in the property text -/
theorem defaults_are_sdk_identity :
    lookup defaultRes.attrs kSdkLanguage = some (.str [99, 112, 112]) ∧                                       -- cpp
    lookup defaultRes.attrs kSdkName = some (.str [111, 112, 101, 110, 116, 101, 108, 101, 109, 101, 116, 114, 121]) ∧   -- opentelemetry
    (lookup defaultRes.attrs kSdkVersion).isSome = true ∧
    lookup defaultRes.attrs kServiceName = none ∧ defaultRes.schema = [] := by
  refine ⟨by decide, by decide, by decide, by decide, by decide⟩

/-- the three layers `Resource::Create` stacks: SDK defaults, then the environment, then the caller -/
def layered (env user : Res) (k : Bytes) : Option Val :=
  orElse (lookup user.attrs k) (orElse (lookup env.attrs k) (lookup defaultRes.attrs k))

theorem merged3_lookup (env user : Res) (k : Bytes) :
    lookup (merge (merge defaultRes env) user).attrs k = layered env user k := by
  rw [merge_union_right_biased, merge_union_right_biased]; rfl

/-- **`Resource::Create(attrs)`: SDK defaults, overridden by the environment, overridden by the caller's attributes.**
    On every key the caller's value wins, then the environment's, then the default; the only other entry ever present is
    the `service.name` fallback when none of the three layers has one. -/
theorem create_precedence (env user : Res) (k : Bytes) :
    lookup (create env user).attrs k =
      match layered env user k with
      | some v => some v
      | none => if k = kServiceName then some (.str (fallbackServiceName (merge (merge defaultRes env) user).attrs)) else none := by
  unfold create
  rw [resource_keys.1]
  simp only
  cases hsn : lookup (merge (merge defaultRes env) user).attrs kServiceName with
  | some v0 =>
    simp only
    rw [merged3_lookup]
    cases hl : layered env user k with
    | some v => rfl
    | none =>
      simp only
      by_cases hk : k = kServiceName
      · subst hk; rw [merged3_lookup, hl] at hsn; exact absurd hsn (by simp)
      · simp [hk]
  | none =>
    simp only
    rw [lookup_set, merged3_lookup]
    by_cases hk : kServiceName = k
    · subst hk
      rw [merged3_lookup] at hsn
      simp [hsn]
    · have hk' : ¬ k = kServiceName := fun h => hk h.symm
      simp only [hk, if_false, hk']
      cases layered env user k <;> rfl

/-- **…and always contains a `service.name`** -/
theorem create_has_service_name (env user : Res) : (lookup (create env user).attrs kServiceName).isSome = true := by
  rw [create_precedence]
  cases layered env user kServiceName <;> simp

/-- the fallback is `unknown_service`, or `unknown_service:<process.executable.name>` when that attribute is a string;
    a non-string `process.executable.name` is ignored (D61: the code used to call `get<std::string>` on it and throw) -/
theorem create_service_name_fallback (env user : Res) (h : layered env user kServiceName = none) :
    lookup (create env user).attrs kServiceName =
      match layered env user kProcessExe with
      | some (.str exe) => some (.str (unknownService ++ [58] ++ exe))
      | _ => some (.str unknownService) := by
  rw [create_precedence, h]
  simp only [if_true]
  unfold fallbackServiceName
  rw [resource_keys.2.1, resource_keys.2.2.1, resource_keys.2.2.2.1, merged3_lookup]
  cases layered env user kProcessExe with
  | none => rfl
  | some v => cases v <;> rfl

/-! ### The `OTEL_RESOURCE_ATTRIBUTES` detector: key=value lists -/

/-- every item followed by a comma -/
def terminated (toks : List Bytes) : Bytes := toks.flatMap (· ++ [44])

/-- **the items of the list**: `s` is the concatenation of the comma-free items, each followed by a comma, the final
    comma being optional (an empty item after a final comma is not an item) -/
theorem getlines_spec : ∀ (fuel : Nat) (s : Bytes), s.length ≤ fuel →
    (∀ t ∈ getlines 44 fuel s, (44 : UInt8) ∉ t) ∧
    (terminated (getlines 44 fuel s) = s ∨ (terminated (getlines 44 fuel s) = s ++ [44] ∧ s.getLast? ≠ some 44)) := by
  intro fuel
  induction fuel with
  | zero =>
    intro s hs
    have : s = [] := List.eq_nil_of_length_eq_zero (by omega)
    subst this
    simp [getlines, terminated]
  | succ n ih =>
    intro s hs
    cases s with
    | nil => simp [getlines, terminated]
    | cons c t =>
      simp only [getlines]
      generalize htk : takeTok 44 (c :: t) = r
      obtain ⟨tok, rest⟩ := r
      cases rest with
      | none =>
        obtain ⟨h1, h2⟩ := takeTok_none htk
        simp only
        refine ⟨by simpa using h2, Or.inr ⟨by simp [terminated, h1], ?_⟩⟩
        intro hl
        rw [h1] at hl
        exact h2 (List.mem_of_getLast? hl)
      | some rest =>
        obtain ⟨h1, h2⟩ := takeTok_some htk
        have hlen : rest.length ≤ n := by
          have : (c :: t).length = tok.length + 1 + rest.length := by rw [h1]; simp; omega
          simp only [List.length_cons] at this hs
          omega
        obtain ⟨i1, i2⟩ := ih rest hlen
        simp only
        refine ⟨?_, ?_⟩
        · intro x hx
          rcases List.mem_cons.1 hx with rfl | hx
          · exact h2
          · exact i1 x hx
        · have hterm : terminated (tok :: getlines 44 n rest) = tok ++ 44 :: terminated (getlines 44 n rest) := by
            simp [terminated]
          rw [hterm, h1]
          rcases i2 with e | ⟨e, hl⟩
          · exact Or.inl (by rw [e])
          · refine Or.inr ⟨by rw [e]; simp, ?_⟩
            cases rest with
            | nil =>
              exfalso
              have : getlines 44 n [] = [] := by cases n <;> rfl
              rw [this] at e
              simp [terminated] at e
            | cons y ys =>
              have : (tok ++ 44 :: y :: ys).getLast? = (y :: ys).getLast? := by
                rw [List.getLast?_append, List.getLast?_cons_cons]
                cases hg : (y :: ys).getLast? with
                | none => simp at hg
                | some z => rfl
              rw [this]; exact hl

theorem tokens_spec (s : Bytes) :
    (∀ t ∈ tokens s, (44 : UInt8) ∉ t) ∧
    (terminated (tokens s) = s ∨ (terminated (tokens s) = s ++ [44] ∧ s.getLast? ≠ some 44)) := by
  unfold tokens
  rw [resource_keys.2.2.2.2.1]
  exact getlines_spec s.length s (Nat.le_refl _)

/-- item `t` reads `k=val`: the key is what precedes the first `=` -/
def HasKey (t k val : Bytes) : Prop := t = k ++ 61 :: val ∧ (61 : UInt8) ∉ k
def NoKey (toks : List Bytes) (k : Bytes) : Prop := ∀ t ∈ toks, ∀ val, ¬ HasKey t k val
/-- `k=val` is the last item with key `k` -/
def LastItem (toks : List Bytes) (k val : Bytes) : Prop :=
  ∃ pre x post, toks = pre ++ x :: post ∧ HasKey x k val ∧ NoKey post k

def parseStep (m : Attrs) (tok : Bytes) : Attrs :=
  match takeTok Gen.resKvSep tok with
  | (_, none) => m
  | (k, some v) => Resource.set m k (Val.str v)

theorem parseAttrs_eq (s : Bytes) : parseAttrs s = (tokens s).foldl parseStep [] := rfl

theorem hasKey_unique {t k val k' val' : Bytes} (h : HasKey t k val) (h' : HasKey t k' val') : k = k' ∧ val = val' := by
  have e1 := takeTok_append_sep k val h.2
  have e2 := takeTok_append_sep k' val' h'.2
  rw [← h.1] at e1
  rw [← h'.1, e1] at e2
  simp at e2
  exact e2

theorem parseStep_lookup (m : Attrs) (t k : Bytes) (v : Val) :
    lookup (parseStep m t) k = some v ↔
      (∃ val, HasKey t k val ∧ v = .str val) ∨ ((∀ val, ¬ HasKey t k val) ∧ lookup m k = some v) := by
  unfold parseStep
  rw [resource_keys.2.2.2.2.2]
  generalize htk : takeTok 61 t = r
  obtain ⟨k', rest⟩ := r
  cases rest with
  | none =>
    obtain ⟨h1, h2⟩ := takeTok_none htk
    have hno : ∀ val, ¬ HasKey t k val := by
      rintro val ⟨e, _⟩
      apply h2; rw [← h1, e]; simp
    simp only
    constructor
    · intro h; exact Or.inr ⟨hno, h⟩
    · rintro (⟨val, hk, _⟩ | ⟨_, h⟩)
      · exact absurd hk (hno val)
      · exact h
  | some v' =>
    obtain ⟨h1, h2⟩ := takeTok_some htk
    have hk' : HasKey t k' v' := ⟨h1, h2⟩
    simp only
    rw [lookup_set]
    by_cases hkk : k' = k
    · subst hkk
      simp only [if_true, Option.some.injEq]
      constructor
      · intro h; exact Or.inl ⟨v', hk', h.symm⟩
      · rintro (⟨val, hk, rfl⟩ | ⟨hno, _⟩)
        · rw [(hasKey_unique hk hk').2]
        · exact absurd hk' (hno v')
    · simp only [hkk, if_false]
      have hno : ∀ val, ¬ HasKey t k val := fun val hk => hkk (hasKey_unique hk hk').1.symm
      constructor
      · intro h; exact Or.inr ⟨hno, h⟩
      · rintro (⟨val, hk, _⟩ | ⟨_, h⟩)
        · exact absurd hk (hno val)
        · exact h

theorem lastItem_cons (t : Bytes) (ts : List Bytes) (k val : Bytes) :
    LastItem (t :: ts) k val ↔ LastItem ts k val ∨ (HasKey t k val ∧ NoKey ts k) := by
  constructor
  · rintro ⟨pre, x, post, e, hk, hn⟩
    cases pre with
    | nil =>
      simp only [List.nil_append, List.cons.injEq] at e
      obtain ⟨rfl, rfl⟩ := e
      exact Or.inr ⟨hk, hn⟩
    | cons p pre' =>
      simp only [List.cons_append, List.cons.injEq] at e
      exact Or.inl ⟨pre', x, post, e.2, hk, hn⟩
  · rintro (⟨pre, x, post, e, hk, hn⟩ | ⟨hk, hn⟩)
    · exact ⟨t :: pre, x, post, by rw [e]; rfl, hk, hn⟩
    · exact ⟨[], t, ts, rfl, hk, hn⟩

theorem foldl_parse_lookup (toks : List Bytes) : ∀ (m : Attrs) (k : Bytes) (v : Val),
    lookup (toks.foldl parseStep m) k = some v ↔
      (∃ val, v = .str val ∧ LastItem toks k val) ∨ (NoKey toks k ∧ lookup m k = some v) := by
  induction toks with
  | nil =>
    intro m k v
    simp only [List.foldl_nil]
    constructor
    · intro h; exact Or.inr ⟨by intro t ht; simp at ht, h⟩
    · rintro (⟨val, _, pre, x, post, e, _⟩ | ⟨_, h⟩)
      · simp at e
      · exact h
  | cons t ts ih =>
    intro m k v
    rw [List.foldl_cons, ih, parseStep_lookup]
    have hB : NoKey (t :: ts) k ↔ (∀ val, ¬ HasKey t k val) ∧ NoKey ts k := by
      unfold NoKey
      constructor
      · intro h; exact ⟨h t (by simp), fun x hx => h x (by simp [hx])⟩
      · rintro ⟨h1, h2⟩ x hx
        rcases List.mem_cons.1 hx with rfl | hx
        · exact h1
        · exact h2 x hx
    constructor
    · rintro (⟨val, rfl, hl⟩ | ⟨hn, (⟨val, hk, rfl⟩ | ⟨hno, hm⟩)⟩)
      · exact Or.inl ⟨val, rfl, (lastItem_cons t ts k val).2 (Or.inl hl)⟩
      · exact Or.inl ⟨val, rfl, (lastItem_cons t ts k val).2 (Or.inr ⟨hk, hn⟩)⟩
      · exact Or.inr ⟨hB.2 ⟨hno, hn⟩, hm⟩
    · rintro (⟨val, rfl, hl⟩ | ⟨hn, hm⟩)
      · rcases (lastItem_cons t ts k val).1 hl with hl | ⟨hk, hn⟩
        · exact Or.inl ⟨val, rfl, hl⟩
        · exact Or.inr ⟨hn, Or.inl ⟨val, hk, rfl⟩⟩
      · exact Or.inr ⟨(hB.1 hn).2, Or.inr ⟨(hB.1 hn).1, hm⟩⟩

/-- **key=value lists**: the detector yields key `k` exactly when some item reads `k=…`, with the string after the first
    `=` of the *last* such item as value — nothing is trimmed, items without `=` are skipped, for every byte string -/
theorem detect_lookup_iff (s k : Bytes) (v : Val) :
    lookup (parseAttrs s) k = some v ↔ ∃ val, v = .str val ∧ LastItem (tokens s) k val := by
  rw [parseAttrs_eq, foldl_parse_lookup]
  constructor
  · rintro (h | ⟨_, h⟩)
    · exact h
    · simp [lookup] at h
  · intro h; exact Or.inl h

-- "a=b,c,a=d=e," : a ↦ "d=e"
example : LastItem (tokens [97, 61, 98, 44, 99, 44, 97, 61, 100, 61, 101, 44]) [97] [100, 61, 101] :=
  ⟨[[97, 61, 98], [99]], [97, 61, 100, 61, 101], [], by decide, ⟨rfl, by decide⟩, by intro t ht; simp at ht⟩

/-- `OTEL_SERVICE_NAME`, when set and not empty, overrides `service.name` of the list and touches nothing else; the
    detected resource has no schema URL -/
theorem detect_service_name_override (envAttrs envService : Option Bytes) (k : Bytes) :
    lookup (detect envAttrs envService).attrs k =
      (match envString envService with
       | some n => if k = kServiceName then some (.str n) else
           match envString envAttrs with | some s => lookup (parseAttrs s) k | none => none
       | none => match envString envAttrs with | some s => lookup (parseAttrs s) k | none => none) ∧
    (detect envAttrs envService).schema = [] := by
  unfold detect
  rw [resource_keys.1]
  refine ⟨?_, rfl⟩
  cases envString envService with
  | none => simp only; cases envString envAttrs <;> rfl
  | some n =>
    simp only
    rw [lookup_set]
    by_cases hk : k = kServiceName
    · subst hk; simp
    · have : ¬ kServiceName = k := fun h => hk h.symm
      simp only [this, hk, if_false]
      cases envString envAttrs <;> rfl

end Resources

end Otel.C18
