import OtelVerif.Props.C19Race
import OtelVerif.Gen.MeterRegLock
/-! # C06, "several handles of one instrument" when the handles are obtained concurrently

`Meter::RegisterSyncMetricStorage` / `RegisterAsyncMetricStorage` keep one storage per (instrument, view) in
`storage_registry_`, a get-or-create table under `storage_lock_`: the same protocol as the providers' scope lists, whose
model is `Model/GetScopeLock.lean` (key = the registry key of the instrument and view, object = the storage).  Its theorems,
for EVERY interleaving of any number of threads obtaining handles, are what `multi_handle` (Props/C06.lean: every handle of
an instrument records into the instrument's one stream) needs when the handles are created at the same time: two requests
for one key get the same storage, and a storage that was handed out is never replaced in the table.  What the protocol
assumes of the source text is re-extracted on every run (`gen_meter_registry_lock_facts`); real executions of the unmodified
`meter.cc` under the deterministic scheduler are checked against the schedule-independent prediction (one stream per
instrument holding everything recorded through all handles, `harness/d_meterreg.cc`). -/
namespace Otel.C06Race
open Otel Otel.GetScopeLock

/-- **handles for one instrument obtained by any threads, in any interleaving, share one storage** -/
theorem handles_share_one_storage {as : List Act} {s : St} (h : run init as = some s) (r1 r2 : Ret)
    (h1 : r1 ∈ s.rets) (h2 : r2 ∈ s.rets) (hk : r1.key = r2.key) : r1.ent = r2.ent :=
  C19Race.same_key_same_object h r1 r2 h1 h2 hk

/-- **a storage that was handed out stays the registered one**: the table never holds two storages for one key and never
    loses an entry, so later handles and every collection see the storage the first handle records into -/
theorem handed_out_storage_stays_registered {as : List Act} {s : St} (h : run init as = some s) (r : Ret) (hr : r ∈ s.rets) :
    r.ent ∈ s.list ∧ r.ent.key = r.key ∧ (s.list.map (·.key)).Nodup :=
  ⟨(C19Race.returned_in_list_with_requested_key h r hr).1, (C19Race.returned_in_list_with_requested_key h r hr).2,
   C19Race.list_keys_nodup h⟩

/-- what the protocol assumes of `meter.cc` (re-extracted into `Gen/MeterRegLock.lean` on every run): both registration
    functions declare one lock guard on `storage_lock_` at their top brace level before the first use of
    `storage_registry_`, it is the only one, and nothing releases it before the return -/
theorem gen_meter_registry_lock_facts : Gen.meterRegGuardBeforeFirstUse = true ∧ Gen.meterRegOneGuardHeldToReturn = true := by decide

end Otel.C06Race
