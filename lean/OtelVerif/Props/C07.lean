import OtelVerif.Model.Histogram
import Mathlib.Algebra.Order.Ring.Rat
import Mathlib.Algebra.BigOperators.Group.List.Basic
import Mathlib.Tactic.Linarith
import Mathlib.Algebra.Order.Field.Basic
import Mathlib.Algebra.Order.Field.Rat
import OtelVerif.Lemmas.SeriesStore
import OtelVerif.Lemmas.SeriesKey
import OtelVerif.Lemmas.SeriesFree
import OtelVerif.Model.HistogramStore
/-! # C07 — histogram points are exact summaries of the recorded values

The declarative side is written from the property text:
* `InBucket bs i v` : "bucket i holds the values v with boundary[i-1] < v ≤ boundary[i], the last bucket
  everything above the top boundary";
* `specCounts bs vs` : for every bucket the number of recorded values it holds;
* count = number of values, sum = Σ values, min / max = least / greatest recorded value;
* "combining intervals is lossless": the merge of the points of any split equals the point of all values.
The model (`Otel.Hist`) mirrors the C++; the theorems relate the two for every sorted boundary list, every value
list and both value kinds. -/
namespace Otel.C07
open Otel.Hist

/-- boundary lists are sorted (duplicates allowed: such a bucket is simply empty) -/
abbrev Sorted (bs : List Rat) : Prop := bs.Pairwise (· ≤ ·)

example : Sorted [] := List.Pairwise.nil
example : Sorted [(5 : Rat)] := by simp [Sorted]
example : Sorted [(0 : Rat), 1 / 4, 1 / 2, 1 / 2, 10] := by decide +kernel

/-- the property's bucket rule: `b[i-1] < v ≤ b[i]`; no lower bound for bucket 0, no upper bound for the last bucket -/
def InBucket (bs : List Rat) (i : Nat) (v : Rat) : Prop :=
  i ≤ bs.length ∧ (∀ h : i - 1 < bs.length, 0 < i → bs[i - 1] < v) ∧ (∀ h : i < bs.length, v ≤ bs[i])

/-! ## `BucketBinarySearch` -/

theorem bucket_le_length (v : Rat) (bs : List Rat) : bucket v bs ≤ bs.length := by
  induction bs with
  | nil => simp [bucket]
  | cons b bs ih => unfold bucket; split <;> simp <;> omega

/-- every boundary before the chosen index is `< v`, every boundary from it on is `≥ v` -/
theorem bucket_spec {bs : List Rat} (hs : Sorted bs) (v : Rat) :
    (∀ j, j < bucket v bs → ∀ h : j < bs.length, bs[j] < v) ∧
    (∀ j, bucket v bs ≤ j → ∀ h : j < bs.length, v ≤ bs[j]) := by
  induction bs with
  | nil => simp
  | cons b bs ih =>
    have hs' : Sorted bs := (List.pairwise_cons.mp hs).2
    have hb : ∀ x ∈ bs, b ≤ x := (List.pairwise_cons.mp hs).1
    obtain ⟨ih1, ih2⟩ := ih hs'
    unfold bucket
    by_cases hlt : b < v
    · rw [if_pos hlt]
      constructor
      · intro j hj h
        cases j with
        | zero => simpa using hlt
        | succ j => simpa using ih1 j (by omega) (by simpa using h)
      · intro j hj h
        cases j with
        | zero => omega
        | succ j => simpa using ih2 j (by omega) (by simpa using h)
    · rw [if_neg hlt]
      constructor
      · intro j hj; omega
      · intro j _ h
        have hvb : v ≤ b := not_lt.mp hlt
        cases j with
        | zero => simpa using hvb
        | succ j =>
          have : b ≤ bs[j]'(by simpa using h) := hb _ (List.getElem_mem _)
          simpa using le_trans hvb this

/-- the index computed is a bucket in the sense of the property -/
theorem bucket_inBucket {bs : List Rat} (hs : Sorted bs) (v : Rat) : InBucket bs (bucket v bs) v := by
  obtain ⟨h1, h2⟩ := bucket_spec hs v
  refine ⟨bucket_le_length v bs, ?_, ?_⟩
  · intro h hpos; exact h1 _ (by omega) h
  · intro h; exact h2 _ (le_refl _) h

/-- … and it is the only one: every value lies in exactly one bucket -/
theorem bucket_unique {bs : List Rat} (hs : Sorted bs) (v : Rat) (i : Nat) : InBucket bs i v ↔ i = bucket v bs := by
  constructor
  · rintro ⟨hi, hlo, hhi⟩
    obtain ⟨h1, h2⟩ := bucket_spec hs v
    have hk := bucket_le_length v bs
    by_contra hne
    rcases Nat.lt_or_gt_of_ne hne with hlt | hgt
    · have a := h1 i hlt (by omega)
      have b := hhi (by omega)
      exact absurd (lt_of_lt_of_le a b) (lt_irrefl _)
    · have a := hlo (by omega) (by omega)
      have b := h2 (i - 1) (by omega) (by omega)
      exact absurd (lt_of_lt_of_le a b) (lt_irrefl _)
  · rintro rfl; exact bucket_inBucket hs v

/-- the last bucket holds exactly the values above the top boundary (above every boundary) -/
theorem bucket_last_iff {bs : List Rat} (hs : Sorted bs) (v : Rat) : bucket v bs = bs.length ↔ ∀ b ∈ bs, b < v := by
  obtain ⟨h1, h2⟩ := bucket_spec hs v
  constructor
  · intro h b hb
    obtain ⟨j, hj, rfl⟩ := List.getElem_of_mem hb
    exact h1 j (by omega) hj
  · intro h
    by_contra hne
    have hk := bucket_le_length v bs
    have hlt : bucket v bs < bs.length := by omega
    have := h2 _ (le_refl _) hlt
    exact absurd (lt_of_lt_of_le (h _ (List.getElem_mem hlt)) this) (lt_irrefl _)

example : bucket (5 : Rat) [0, 5, 10] = 1 := by decide +kernel          -- a value equal to a boundary belongs below it
example : bucket (11 : Rat) [0, 5, 10] = 3 := by decide +kernel         -- above the top boundary: last bucket
example : bucket (3 : Rat) [] = 0 := by decide +kernel

/-! ## closed form of the point after recording a list of values -/

/-- the number of recorded values in every bucket, by the property's rule (decidable form of `InBucket`) -/
noncomputable def specCounts (bs : List Rat) (vs : List Rat) : List Nat := by
  classical exact (List.range (bs.length + 1)).map fun i => vs.countP fun v => decide (InBucket bs i v)

/-- counts as the model computes them: per index the number of values sent there by `bucket` -/
def bucketCounts (bs : List Rat) (cs : List Rat) : List Nat :=
  (List.range (bs.length + 1)).map fun i => cs.countP fun v => bucket v bs == i

theorem cmin_eq_min (a b : Rat) : cmin a b = min a b := by
  unfold cmin; by_cases h : b < a
  · rw [if_pos h, min_eq_right (le_of_lt h)]
  · rw [if_neg h, min_eq_left (not_lt.mp h)]

theorem cmax_eq_max (a b : Rat) : cmax a b = max a b := by
  unfold cmax; by_cases h : a < b
  · rw [if_pos h, max_eq_right (le_of_lt h)]
  · rw [if_neg h, max_eq_left (not_lt.mp h)]

/-- what the point *should* be, field by field, in terms of the recorded list only -/
def closed (k : Kind) (cfg : Option Config) (vs : List Rat) : Point :=
  let p0 := new k cfg
  { boundaries := p0.boundaries
    counts := bucketCounts p0.boundaries (vs.map k.conv)
    count := vs.length
    sum := vs.sum
    min := if p0.recordMinMax then vs.foldl min k.minInit else k.minInit
    max := if p0.recordMinMax then vs.foldl max k.maxInit else k.maxInit
    recordMinMax := p0.recordMinMax }

theorem modify_range_map (n idx : Nat) (g : Nat → Nat) (h : idx ≤ n) :
    ((List.range (n + 1)).map g).modify idx (· + 1) = (List.range (n + 1)).map fun i => g i + if idx = i then 1 else 0 := by
  apply List.ext_getElem
  · simp
  · intro j h1 h2
    simp only [List.length_modify, List.length_map, List.length_range] at h1
    rw [List.getElem_modify]
    simp only [List.getElem_map, List.getElem_range]
    by_cases hj : idx = j <;> simp [hj]

theorem foldl_aggregate (k : Kind) (bs : List Rat) (vs : List Rat) :
    ∀ (p : Point) (g : Nat → Nat), p.boundaries = bs → p.counts = (List.range (bs.length + 1)).map g →
      vs.foldl (aggregate k) p =
        { boundaries := bs
          counts := (List.range (bs.length + 1)).map fun i => g i + (vs.map k.conv).countP fun v => bucket v bs == i
          count := p.count + vs.length
          sum := p.sum + vs.sum
          min := if p.recordMinMax then vs.foldl min p.min else p.min
          max := if p.recordMinMax then vs.foldl max p.max else p.max
          recordMinMax := p.recordMinMax } := by
  induction vs with
  | nil =>
    intro p g hb hc
    cases p
    simp_all
  | cons v vs ih =>
    intro p g hb hc
    rw [List.foldl_cons]
    have hidx := bucket_le_length (k.conv v) bs
    rw [ih (aggregate k p v) (fun i => g i + if bucket (k.conv v) bs = i then 1 else 0) (by simp [aggregate, hb])
      (by simp only [aggregate, hc, hb]; exact modify_range_map _ _ g hidx)]
    simp only [aggregate, List.map_cons, List.countP_cons, List.length_cons, List.sum_cons, List.foldl_cons,
      cmin_eq_min, cmax_eq_max, Point.mk.injEq, true_and]
    refine ⟨?_, by omega, by rw [add_assoc], ?_, ?_, trivial⟩
    · apply List.map_congr_left
      intro i _
      by_cases hi : bucket (k.conv v) bs = i <;> simp [hi] <;> omega
    · split <;> simp_all
    · split <;> simp_all

theorem hist_eq_closed (k : Kind) (cfg : Option Config) (vs : List Rat) : hist k cfg vs = closed k cfg vs := by
  unfold hist
  rw [foldl_aggregate k (new k cfg).boundaries vs (new k cfg) (fun _ => 0) rfl (by
    simp only [new]
    apply List.ext_getElem <;> simp)]
  simp [closed, bucketCounts, new]

/-! ## the clauses of the property -/

/-- the structural invariant the C++ relies on when it indexes `counts_` -/
theorem hist_wf (k : Kind) (cfg : Option Config) (vs : List Rat) :
    (hist k cfg vs).counts.length = (hist k cfg vs).boundaries.length + 1 := by
  rw [hist_eq_closed]; simp [closed, bucketCounts]

/-- the boundaries of the point are the configured ones (view) or the default list -/
theorem boundaries_eq (k : Kind) (cfg : Option Config) (vs : List Rat) :
    (hist k cfg vs).boundaries = (match cfg with | some c => c.boundaries | none => k.defaultBoundaries) := by
  rw [hist_eq_closed]; cases cfg <;> simp [closed, new]

/-- **every recorded value is counted in exactly the bucket the property names**: for every sorted boundary list,
    `counts[i]` is the number of recorded values `v` with `b[i-1] < v ≤ b[i]` (as `BucketBinarySearch` sees them) -/
theorem counts_eq_spec (k : Kind) (cfg : Option Config) (vs : List Rat) (hs : Sorted (new k cfg).boundaries) :
    (hist k cfg vs).counts = specCounts (new k cfg).boundaries (vs.map k.conv) := by
  rw [hist_eq_closed]
  simp only [closed, bucketCounts, specCounts]
  apply List.map_congr_left
  intro i _
  apply List.countP_congr
  intro v _
  simp only [beq_iff_eq, decide_eq_true_eq]
  rw [bucket_unique hs v i]
  exact eq_comm

/-- floating instruments: `counts[i]` is the number of recorded values `v` with `b[i-1] < v ≤ b[i]` -/
theorem counts_eq_spec_double (cfg : Option Config) (vs : List Rat) (hs : Sorted (new .double cfg).boundaries) :
    (hist .double cfg vs).counts = specCounts (new .double cfg).boundaries vs := by
  have h := counts_eq_spec .double cfg vs hs
  have hm : vs.map Kind.double.conv = vs := by
    rw [show Kind.double.conv = id from funext fun _ => rfl, List.map_id]
  rw [hm] at h; exact h

theorem sum_indicator (k : Nat) : ∀ n, k < n → ((List.range n).map fun i => if k = i then 1 else 0).sum = 1 := by
  intro n
  induction n with
  | zero => intro h; omega
  | succ n ihn =>
    intro h
    rw [List.range_succ, List.map_append, List.sum_append]
    by_cases hn : k = n
    · have hz : ((List.range n).map fun i => if k = i then 1 else 0).sum = 0 := by
        apply List.sum_eq_zero
        intro x hx
        obtain ⟨i, hi, rfl⟩ := List.mem_map.mp hx
        have : i < n := List.mem_range.mp hi
        have : ¬ k = i := by omega
        simp [this]
      rw [hz]; simp [hn]
    · rw [ihn (by omega)]; simp [hn]

theorem countP_bucket_sum (bs cs : List Rat) :
    ((List.range (bs.length + 1)).map fun i => cs.countP fun v => bucket v bs == i).sum = cs.length := by
  induction cs with
  | nil => simp
  | cons c cs ih =>
    have hk := bucket_le_length c bs
    simp only [List.countP_cons, List.length_cons, beq_iff_eq]
    rw [List.sum_map_add]
    rw [ih, sum_indicator _ _ (by omega)]

/-- the bucket counts add up to `count` -/
theorem counts_sum_eq_count (k : Kind) (cfg : Option Config) (vs : List Rat) :
    (hist k cfg vs).counts.sum = (hist k cfg vs).count := by
  rw [hist_eq_closed]
  simp only [closed, bucketCounts]
  rw [countP_bucket_sum]; simp

/-- `count` is the number of recorded values -/
theorem count_eq (k : Kind) (cfg : Option Config) (vs : List Rat) : (hist k cfg vs).count = vs.length := by
  rw [hist_eq_closed]; rfl

/-- `sum` is the sum of the recorded values -/
theorem sum_eq (k : Kind) (cfg : Option Config) (vs : List Rat) : (hist k cfg vs).sum = vs.sum := by
  rw [hist_eq_closed]; rfl

theorem foldl_min_le_init (vs : List Rat) : ∀ init, vs.foldl min init ≤ init := by
  induction vs with
  | nil => intro i; simp
  | cons v vs ih => intro i; exact le_trans (ih _) (min_le_left _ _)

theorem foldl_min_spec (vs : List Rat) :
    ∀ init, (∀ v ∈ vs, vs.foldl min init ≤ v) ∧ (vs.foldl min init = init ∨ vs.foldl min init ∈ vs) := by
  induction vs with
  | nil => intro i; simp
  | cons v vs ih =>
    intro i
    obtain ⟨h1, h2⟩ := ih (min i v)
    simp only [List.foldl_cons, List.mem_cons]
    constructor
    · intro w hw
      rcases hw with rfl | hw
      · exact le_trans (foldl_min_le_init vs _) (min_le_right _ _)
      · exact h1 w hw
    · rcases h2 with h | h
      · rcases min_choice i v with hc | hc
        · left; rw [h, hc]
        · right; left; rw [h, hc]
      · right; right; exact h

theorem foldl_max_ge_init (vs : List Rat) : ∀ init, init ≤ vs.foldl max init := by
  induction vs with
  | nil => intro i; simp
  | cons v vs ih => intro i; exact le_trans (le_max_left _ _) (ih _)

theorem foldl_max_spec (vs : List Rat) :
    ∀ init, (∀ v ∈ vs, v ≤ vs.foldl max init) ∧ (vs.foldl max init = init ∨ vs.foldl max init ∈ vs) := by
  induction vs with
  | nil => intro i; simp
  | cons v vs ih =>
    intro i
    obtain ⟨h1, h2⟩ := ih (max i v)
    simp only [List.foldl_cons, List.mem_cons]
    constructor
    · intro w hw
      rcases hw with rfl | hw
      · exact le_trans (le_max_right _ _) (foldl_max_ge_init vs _)
      · exact h1 w hw
    · rcases h2 with h | h
      · rcases max_choice i v with hc | hc
        · left; rw [h, hc]
        · right; left; rw [h, hc]
      · right; right; exact h

/-- `min` (when enabled, and something was recorded) is a recorded value and no recorded value is smaller.
    Hypothesis: the values do not exceed the initial sentinel (all `int64` / all finite doubles: see below). -/
theorem min_eq (k : Kind) (cfg : Option Config) (vs : List Rat) (hmm : (new k cfg).recordMinMax = true)
    (hne : vs ≠ []) (hr : ∀ v ∈ vs, v ≤ k.minInit) :
    (hist k cfg vs).min ∈ vs ∧ ∀ v ∈ vs, (hist k cfg vs).min ≤ v := by
  rw [hist_eq_closed]
  simp only [closed, hmm, if_true]
  obtain ⟨h1, h2⟩ := foldl_min_spec vs k.minInit
  refine ⟨?_, h1⟩
  rcases h2 with h | h
  · obtain ⟨w, hw⟩ := List.exists_mem_of_ne_nil vs hne
    have : vs.foldl min k.minInit = w := le_antisymm (h1 w hw) (by rw [h]; exact hr w hw)
    rw [this]; exact hw
  · exact h

/-- `max` (when enabled, and something was recorded) is a recorded value and no recorded value is larger. -/
theorem max_eq (k : Kind) (cfg : Option Config) (vs : List Rat) (hmm : (new k cfg).recordMinMax = true)
    (hne : vs ≠ []) (hr : ∀ v ∈ vs, k.maxInit ≤ v) :
    (hist k cfg vs).max ∈ vs ∧ ∀ v ∈ vs, v ≤ (hist k cfg vs).max := by
  rw [hist_eq_closed]
  simp only [closed, hmm, if_true]
  obtain ⟨h1, h2⟩ := foldl_max_spec vs k.maxInit
  refine ⟨?_, h1⟩
  rcases h2 with h | h
  · obtain ⟨w, hw⟩ := List.exists_mem_of_ne_nil vs hne
    have : vs.foldl max k.maxInit = w := le_antisymm (by rw [h]; exact hr w hw) (h1 w hw)
    rw [this]; exact hw
  · exact h

/-! ### the sentinels and defaults in the source (generated fragment `Gen/Histogram.lean`) -/

theorem doubleMinInit_eq : Gen.histDoubleMinInit = Gen.dblMax := by decide +kernel
/-- D07: `numeric_limits<double>::lowest()`, not `min()` -/
theorem doubleMaxInit_eq : Gen.histDoubleMaxInit = -Gen.dblMax := by decide +kernel
theorem longMinInit_eq : Gen.histLongMinInit = ((2 ^ 63 - 1 : Int) : Rat) := by decide +kernel
theorem longMaxInit_eq : Gen.histLongMaxInit = ((-(2 ^ 63) : Int) : Rat) := by decide +kernel

/-- the OpenTelemetry default explicit bucket boundaries -/
def specDefaultBoundaries : List Rat := [0, 5, 10, 25, 50, 75, 100, 250, 500, 750, 1000, 2500, 5000, 7500, 10000]

theorem long_default_boundaries : Kind.long.defaultBoundaries = specDefaultBoundaries := by decide +kernel
theorem double_default_boundaries : Kind.double.defaultBoundaries = specDefaultBoundaries := by decide +kernel
theorem default_boundaries_sorted (k : Kind) : Sorted k.defaultBoundaries := by
  cases k <;> decide +kernel
theorem recordMinMax_defaults (k : Kind) : k.recordMinMaxDefault = true ∧ Gen.histConfigRecordMinMaxDefault = true := by
  cases k <;> decide

/-- a rational is (the value of) a finite double -/
def IsDouble (q : Rat) : Prop := ∃ bits, decodeDouble bits = some q

example : IsDouble 0 := ⟨0, by decide +kernel⟩
example : IsDouble (1 / 2) := ⟨0x3fe0000000000000, by decide +kernel⟩
example : IsDouble Gen.dblMax := ⟨0x7fefffffffffffff, by decide +kernel⟩

/-- min and max for the floating kind: for every non-empty list of values in the finite double range
    (`isDouble_range`: every finite double is) -/
theorem min_max_double (cfg : Option Config) (vs : List Rat) (hmm : (new .double cfg).recordMinMax = true) (hne : vs ≠ [])
    (hr : ∀ v ∈ vs, -Gen.dblMax ≤ v ∧ v ≤ Gen.dblMax) :
    ((hist .double cfg vs).min ∈ vs ∧ ∀ v ∈ vs, (hist .double cfg vs).min ≤ v) ∧
    ((hist .double cfg vs).max ∈ vs ∧ ∀ v ∈ vs, v ≤ (hist .double cfg vs).max) := by
  refine ⟨min_eq .double cfg vs hmm hne ?_, max_eq .double cfg vs hmm hne ?_⟩
  · intro v hv; show v ≤ Gen.histDoubleMinInit; rw [doubleMinInit_eq]; exact (hr v hv).2
  · intro v hv; show Gen.histDoubleMaxInit ≤ v; rw [doubleMaxInit_eq]; exact (hr v hv).1

/-- D07 in the model: a histogram that only saw 0.0 reports max = 0 (not `numeric_limits<double>::min()`) -/
example : (hist .double none [0]).max = 0 ∧ (hist .double none [0]).min = 0 := by decide +kernel

/-- every `int64_t` is within the long sentinels -/
theorem long_in_range (i : Int) (h : -(2 ^ 63) ≤ i ∧ i < 2 ^ 63) :
    Kind.long.maxInit ≤ (i : Rat) ∧ (i : Rat) ≤ Kind.long.minInit := by
  show Gen.histLongMaxInit ≤ _ ∧ _ ≤ Gen.histLongMinInit
  rw [longMaxInit_eq, longMinInit_eq]
  constructor
  · exact_mod_cast h.1
  · have : i ≤ 2 ^ 63 - 1 := by omega
    exact_mod_cast this

/-- `int64_t` values as the model sees them -/
def longVals (is : List Int) : List Rat := List.map (fun (i : Int) => (Int.cast i : Rat)) is

/-- min and max for the integer kind: for every non-empty list of `int64_t` values -/
theorem min_max_long (cfg : Option Config) (is : List Int) (hmm : (new .long cfg).recordMinMax = true) (hne : is ≠ [])
    (hr : ∀ i ∈ is, -(2 ^ 63) ≤ i ∧ i < 2 ^ 63) :
    ((hist .long cfg (longVals is)).min ∈ longVals is ∧ ∀ v ∈ longVals is, (hist .long cfg (longVals is)).min ≤ v) ∧
    ((hist .long cfg (longVals is)).max ∈ longVals is ∧ ∀ v ∈ longVals is, v ≤ (hist .long cfg (longVals is)).max) := by
  have hne' : longVals is ≠ [] := by
    intro h; unfold longVals at h; exact hne (List.map_eq_nil_iff.mp h)
  refine ⟨min_eq .long cfg _ hmm hne' ?_, max_eq .long cfg _ hmm hne' ?_⟩
  · intro v hv
    unfold longVals at hv
    obtain ⟨i, hi, rfl⟩ := List.mem_map.mp hv
    exact (long_in_range i (hr i hi)).2
  · intro v hv
    unfold longVals at hv
    obtain ⟨i, hi, rfl⟩ := List.mem_map.mp hv
    exact (long_in_range i (hr i hi)).1

example : (hist .long none (longVals [3, 0, 12])).min = 0 ∧ (hist .long none (longVals [3, 0, 12])).max = 12 := by decide +kernel

/-! ### what `BucketBinarySearch<T>` compares -/

/-- floating instruments: the value itself -/
theorem conv_double (v : Rat) : Kind.double.conv v = v := rfl

/-- integer instruments: the value itself as well (since the repair of `BucketBinarySearch(int64_t, …)`) -/
theorem conv_long (v : Rat) : Kind.long.conv v = v := rfl

/-- `BucketBoundaryLessThan(boundary, value)` decides `boundary < value` exactly, for every `double` boundary and every
    `int64_t` value: the content of the repair -/
theorem boundaryLess_iff (b : Rat) (i : Int) (hr : -(2 ^ 63) ≤ i ∧ i < 2 ^ 63) :
    boundaryLess b i = true ↔ b < (i : Rat) := by
  have hhi : Gen.histLongCmpHi = (((2 ^ 63 : Int)) : Rat) := by decide +kernel
  have hlo : Gen.histLongCmpLo = (((-(2 ^ 63) : Int)) : Rat) := by decide +kernel
  unfold boundaryLess
  by_cases h1 : b < Gen.histLongCmpHi
  · by_cases h2 : b < Gen.histLongCmpLo
    · simp only [h1, h2, not_true_eq_false, if_false, if_true, true_iff]
      have : Gen.histLongCmpLo ≤ (i : Rat) := by
        rw [hlo]; exact Rat.intCast_le_intCast.mpr hr.1
      exact lt_of_lt_of_le h2 this
    · simp only [h1, h2, not_true_eq_false, if_false, decide_eq_true_eq]
      exact Rat.floor_lt_iff
  · simp only [h1, not_false_eq_true, if_true, Bool.false_eq_true, false_iff]
    intro hlt
    apply h1
    have : (i : Rat) < Gen.histLongCmpHi := by
      rw [hhi]; exact Rat.intCast_lt_intCast.mpr hr.2
    exact lt_trans hlt this

/-- … so the `int64_t` overload of `BucketBinarySearch` finds the bucket of the exact value -/
theorem bucketLong_eq_bucket (i : Int) (hr : -(2 ^ 63) ≤ i ∧ i < 2 ^ 63) (bs : List Rat) :
    bucketLong i bs = bucket (i : Rat) bs := by
  induction bs with
  | nil => rfl
  | cons b bs ih =>
    unfold bucketLong bucket
    by_cases h : b < (i : Rat)
    · rw [if_pos ((boundaryLess_iff b i hr).mpr h), if_pos h, ih]
    · have : ¬ boundaryLess b i = true := fun hb => h ((boundaryLess_iff b i hr).mp hb)
      rw [if_neg this, if_neg h]

/-- the code-level `Aggregate(int64_t)` is the model's `aggregate .long` on every `int64_t` value -/
theorem aggregateLongC_eq (p : Point) (i : Int) (hr : -(2 ^ 63) ≤ i ∧ i < 2 ^ 63) :
    aggregateLongC p i = aggregate .long p (i : Rat) := by
  unfold aggregateLongC aggregate
  rw [bucketLong_eq_bucket i hr, conv_long]

theorem histLongC_eq (cfg : Option Config) (is : List Int) (hr : ∀ i ∈ is, -(2 ^ 63) ≤ i ∧ i < 2 ^ 63) :
    histLongC cfg is = hist .long cfg (longVals is) := by
  unfold histLongC hist longVals
  generalize new Kind.long cfg = p0
  induction is generalizing p0 with
  | nil => rfl
  | cons i is ih =>
    simp only [List.foldl_cons, List.map_cons]
    rw [aggregateLongC_eq p0 i (hr i (by simp))]
    exact ih (fun j hj => hr j (by simp [hj])) _

/-- the integer histogram obeys the bucket rule exactly, for every `int64_t` value (also beyond 2^53) -/
theorem bucket_spec_long {bs : List Rat} (hs : Sorted bs) (i : Int) (hr : -(2 ^ 63) ≤ i ∧ i < 2 ^ 63) :
    InBucket bs (bucketLong i bs) (i : Rat) := by
  rw [bucketLong_eq_bucket i hr]; exact bucket_inBucket hs _

/-- integer instruments: `counts[i]` is the number of recorded values `v` with `b[i-1] < v ≤ b[i]`, for every list of
    `int64_t` values, through the code-level `Aggregate(int64_t)` -/
theorem counts_eq_spec_long (cfg : Option Config) (is : List Int) (hs : Sorted (new .long cfg).boundaries)
    (hr : ∀ i ∈ is, -(2 ^ 63) ≤ i ∧ i < 2 ^ 63) :
    (histLongC cfg is).counts = specCounts (new .long cfg).boundaries (longVals is) := by
  rw [histLongC_eq cfg is hr]
  have h := counts_eq_spec .long cfg (longVals is) hs
  have hm : (longVals is).map Kind.long.conv = longVals is := by
    rw [show Kind.long.conv = id from funext fun _ => rfl, List.map_id]
  rw [hm] at h; exact h

example : (-(2 ^ 63) ≤ (2 ^ 60 + 19 : Int) ∧ (2 ^ 60 + 19 : Int) < 2 ^ 63) := by decide

/-- the former finding's input: boundaries {2^60}, values {2^60+19, 2^60} now give counts [1,1] -/
example : (histLongC (some { boundaries := [((2 ^ 60 : Nat) : Rat)], recordMinMax := true }) [2 ^ 60 + 19, 2 ^ 60]).counts = [1, 1] := by
  decide +kernel

/-- what the code did before the repair (the value went through `int64_t → double`): 2^53+1 was compared as 2^53 and
    landed in the bucket below the boundary 2^53 -/
theorem bucket_long_aswas_witness :
    ¬ InBucket [((2 ^ 53 : Nat) : Rat)] (bucket (((roundToDouble (2 ^ 53 + 1 : Int)) : Int) : Rat) [((2 ^ 53 : Nat) : Rat)])
        ((2 ^ 53 + 1 : Int) : Rat) := by
  have hb : bucket (((roundToDouble (2 ^ 53 + 1 : Int)) : Int) : Rat) [((2 ^ 53 : Nat) : Rat)] = 0 := by decide +kernel
  rw [hb]
  rintro ⟨_, _, h3⟩
  have := h3 (by simp)
  revert this
  decide +kernel

/-! ## combining intervals is lossless -/

theorem foldl_min_absorb (B : List Rat) : ∀ x m0 : Rat, x ≤ m0 → min x (B.foldl min m0) = B.foldl min x := by
  induction B with
  | nil => intro x m0 h; simpa using h
  | cons b B ih =>
    intro x m0 h
    simp only [List.foldl_cons]
    rw [← ih (min x b) (min m0 b) (min_le_min_right b h)]
    have hY : B.foldl min (min m0 b) ≤ b := le_trans (foldl_min_le_init B _) (min_le_right _ _)
    rw [min_assoc, min_eq_right hY]

theorem foldl_max_absorb (B : List Rat) : ∀ x m0 : Rat, m0 ≤ x → max x (B.foldl max m0) = B.foldl max x := by
  induction B with
  | nil => intro x m0 h; simpa using h
  | cons b B ih =>
    intro x m0 h
    simp only [List.foldl_cons]
    rw [← ih (max x b) (max m0 b) (max_le_max_right b h)]
    have hY : b ≤ B.foldl max (max m0 b) := le_trans (le_max_right _ _) (foldl_max_ge_init B _)
    rw [max_assoc, max_eq_right hY]

/-- **`Merge` is a homomorphism**: merging the points of two intervals gives exactly the point that recording all
    their values into one histogram gives — every field, for every boundary list (sorted or not), both kinds, with
    and without min/max. -/
theorem merge_hom (k : Kind) (cfg : Option Config) (A B : List Rat) :
    merge k (hist k cfg A) (hist k cfg B) = hist k cfg (A ++ B) := by
  simp only [hist_eq_closed]
  simp only [merge, closed, bucketCounts, Bool.and_self, Point.mk.injEq, true_and, List.map_append, List.countP_append,
    List.length_append, List.sum_append, List.foldl_append, cmin_eq_min, cmax_eq_max, and_true]
  refine ⟨?_, ?_, ?_⟩
  · apply List.ext_getElem
    · simp
    · intro j h1 h2; simp
  · split
    · exact foldl_min_absorb B _ _ (foldl_min_le_init A _)
    · rfl
  · split
    · exact foldl_max_absorb B _ _ (foldl_max_ge_init A _)
    · rfl

/-- the first merge the temporal storage performs: a fresh aggregation merged with an interval's point -/
theorem merge_new_left (k : Kind) (cfg : Option Config) (B : List Rat) : merge k (new k cfg) (hist k cfg B) = hist k cfg B := by
  have := merge_hom k cfg [] B
  simpa [hist] using this

/-- any number of intervals, merged left to right (what cumulative readers and multi-reader deltas see) -/
theorem mergeL_hom (k : Kind) (cfg : Option Config) (Bs : List (List Rat)) :
    ∀ A, mergeL k (hist k cfg A) (Bs.map (hist k cfg)) = hist k cfg (A ++ Bs.flatten) := by
  induction Bs with
  | nil => intro A; simp [mergeL]
  | cons B Bs ih =>
    intro A
    simp only [mergeL, List.map_cons, List.foldl_cons, List.flatten_cons] at *
    rw [merge_hom, ih, List.append_assoc]

/-- … or in any other nesting -/
theorem mergeR_hom (k : Kind) (cfg : Option Config) (Bs : List (List Rat)) :
    ∀ A, mergeR k (hist k cfg A) (Bs.map (hist k cfg)) = hist k cfg (A ++ Bs.flatten) := by
  induction Bs with
  | nil => intro A; simp [mergeR]
  | cons B Bs ih =>
    intro A
    simp only [List.map_cons, mergeR, List.flatten_cons]
    rw [ih, merge_hom]

example : mergeL .double (hist .double none [1, 7]) [hist .double none [], hist .double none [5, 20000]] =
    hist .double none [1, 7, 5, 20000] := by
  simpa using mergeL_hom .double none [[], [5, 20000]] [1, 7]

/-- the point depends on the multiset of recorded values only (the order of recording, and hence the unspecified
    enumeration order of the hash tables that are merged, does not matter) -/
theorem hist_perm (k : Kind) (cfg : Option Config) {A B : List Rat} (h : A.Perm B) : hist k cfg A = hist k cfg B := by
  simp only [hist_eq_closed, closed, bucketCounts]
  have hl : A.length = B.length := h.length_eq
  have hsum : A.sum = B.sum := h.sum_eq
  have hmin : ∀ i, A.foldl min i = B.foldl min i := fun i => by
    apply List.Perm.foldl_eq' h
    intro x _ y _ z; simp only [min_assoc, min_comm y x]
  have hmax : ∀ i, A.foldl max i = B.foldl max i := fun i => by
    apply List.Perm.foldl_eq' h
    intro x _ y _ z; simp only [max_assoc, max_comm y x]
  have hc : ∀ p : Rat → Bool, (A.map k.conv).countP p = (B.map k.conv).countP p := fun p => (h.map _).countP_eq p
  simp only [hl, hsum, hmin, hmax, hc]

/-! ## finite doubles are inside the sentinels -/

theorem isDouble_range {q : Rat} (h : IsDouble q) : -Gen.dblMax ≤ q ∧ q ≤ Gen.dblMax := by
  obtain ⟨bits, hb⟩ := h
  unfold decodeDouble at hb
  simp only at hb
  split at hb
  · exact absurd hb (by simp)
  · rename_i he
    have hmag : ∀ m : Rat, 0 ≤ m → m ≤ Gen.dblMax → (-Gen.dblMax ≤ (if bits / 2 ^ 63 % 2 = 1 then -m else m) ∧
        (if bits / 2 ^ 63 % 2 = 1 then -m else m) ≤ Gen.dblMax) := by
      intro m h0 h1
      have hd : (0 : Rat) ≤ Gen.dblMax := le_trans h0 h1
      split <;> constructor <;> linarith
    have hf : bits % 2 ^ 52 < 2 ^ 52 := Nat.mod_lt _ (by decide)
    have he' : bits / 2 ^ 52 % 2048 < 2047 := by
      have : bits / 2 ^ 52 % 2048 < 2048 := Nat.mod_lt _ (by decide)
      omega
    injection hb with hb
    rw [← hb]
    apply hmag
    · split
      · exact div_nonneg (Nat.cast_nonneg _) (Nat.cast_nonneg _)
      · split
        · exact Nat.cast_nonneg _
        · exact div_nonneg (Nat.cast_nonneg _) (Nat.cast_nonneg _)
    · have hD : Gen.dblMax = (((2 ^ 53 - 1) * 2 ^ 971 : Nat) : Rat) := by decide +kernel
      rw [hD]
      split
      · -- subnormal: f / 2^1074 ≤ f ≤ 2^52
        rename_i h0
        have h1 : ((bits % 2 ^ 52 : Nat) : Rat) / ((2 ^ 1074 : Nat) : Rat) ≤ ((bits % 2 ^ 52 : Nat) : Rat) := by
          apply div_le_self (Nat.cast_nonneg _)
          have : (1 : Nat) ≤ 2 ^ 1074 := Nat.one_le_two_pow
          exact_mod_cast this
        refine le_trans h1 ?_
        have : bits % 2 ^ 52 ≤ (2 ^ 53 - 1) * 2 ^ 971 := by
          have : (2 : Nat) ^ 52 ≤ (2 ^ 53 - 1) * 2 ^ 971 := by decide +kernel
          omega
        exact_mod_cast this
      · split
        · rename_i h0 h1
          have h2 : bits / 2 ^ 52 % 2048 - 1075 ≤ 971 := by omega
          have : (2 ^ 52 + bits % 2 ^ 52) * 2 ^ (bits / 2 ^ 52 % 2048 - 1075) ≤ (2 ^ 53 - 1) * 2 ^ 971 := by
            apply Nat.mul_le_mul
            · omega
            · exact Nat.pow_le_pow_right (by decide) h2
          exact_mod_cast this
        · have h1 : ((2 ^ 52 + bits % 2 ^ 52 : Nat) : Rat) / ((2 ^ (1075 - bits / 2 ^ 52 % 2048) : Nat) : Rat)
              ≤ ((2 ^ 52 + bits % 2 ^ 52 : Nat) : Rat) := by
            apply div_le_self (Nat.cast_nonneg _)
            have : (1 : Nat) ≤ 2 ^ (1075 - bits / 2 ^ 52 % 2048) := Nat.one_le_two_pow
            exact_mod_cast this
          refine le_trans h1 ?_
          have : 2 ^ 52 + bits % 2 ^ 52 ≤ (2 ^ 53 - 1) * 2 ^ 971 := by
            have : (2 : Nat) ^ 53 ≤ (2 ^ 53 - 1) * 2 ^ 971 := by decide +kernel
            omega
          exact_mod_cast this

/-! ## through the storage: collection cycles and readers

The series storage (`Otel.Series`, the model behind C08) is generic in the aggregation.  Instantiated with the
histogram aggregation, its conservation theorem says that — for every history of `Record`s and `Collect`s, any number
of delta and cumulative readers, any cardinality limit — the points handed to a reader together account for exactly
the values recorded in that reader's interval (delta) or so far (cumulative): their `count`s add up to the number of
those values and their `sum`s to the sum of those values.  Per series the point is then `hist` of its values by
`mergeL_hom` / `hist_perm` (the storage only ever applies `aggregate` and `merge`). -/

open Otel.Series in
/-- `count_` is an additive measure of the aggregation -/
def countMeasure (k : Kind) (cfg : Option Config) : Measure (histAgg k cfg) Nat :=
  { μ := fun p => p.count, w := fun _ => 1, new := rfl, add := fun _ _ => rfl, merge := fun _ _ => rfl }

open Otel.Series in
/-- `sum_` is an additive measure of the aggregation -/
def sumMeasure (k : Kind) (cfg : Option Config) : Measure (histAgg k cfg) Rat :=
  { μ := fun p => p.sum, w := fun v => v, new := rfl, add := fun _ _ => rfl, merge := fun _ _ => rfl }

open Otel.Series in
theorem storage_conserves_count {K : Type} [DecidableEq K] (k : Kind) (cfg : Option Config) (ovf : K) (limit : Nat)
    (temps : List Temporality) (iter : List (K × Point) → List (K × Point)) (hiter : ∀ l, (iter l).Perm l)
    (ops : List (Op K Rat)) (hops : ∀ r, Op.collect r ∈ ops → r < temps.length) :
    let c : Cfg K Point Rat := { ag := histAgg k cfg, ovf := ovf, limit := limit, temps := temps, iter := iter }
    ((Store.run c (Store.init c) ops).2.map fun o => (o.1, outTotal (fun p : Point => p.count) o.2)) =
      specTotals c (fun _ _ => 1) (fun _ => 0) 0 ops := by
  intro c
  exact run_totals c (countMeasure k cfg) hiter ops (Store.init c) (fun _ => 0) 0 (sinv_init c (countMeasure k cfg)) hops

open Otel.Series in
theorem storage_conserves_sum {K : Type} [DecidableEq K] (k : Kind) (cfg : Option Config) (ovf : K) (limit : Nat)
    (temps : List Temporality) (iter : List (K × Point) → List (K × Point)) (hiter : ∀ l, (iter l).Perm l)
    (ops : List (Op K Rat)) (hops : ∀ r, Op.collect r ∈ ops → r < temps.length) :
    let c : Cfg K Point Rat := { ag := histAgg k cfg, ovf := ovf, limit := limit, temps := temps, iter := iter }
    ((Store.run c (Store.init c) ops).2.map fun o => (o.1, outTotal (fun p : Point => p.sum) o.2)) =
      specTotals c (fun _ v => v) (fun _ => 0) 0 ops := by
  intro c
  exact run_totals c (sumMeasure k cfg) hiter ops (Store.init c) (fun _ => 0) 0 (sinv_init c (sumMeasure k cfg)) hops

open Otel.Series in
/-- per series, below the cardinality limit: the point reported for attribute set `k0` has as `count` the number of
    values recorded with `k0` in the reader's interval (delta) / so far (cumulative), and as `sum` their sum — for every
    history of collection cycles and readers.  (Its buckets, min and max are then those of `hist` of these values:
    the storage only applies `aggregate` and `merge`, and `mergeL_hom`, `hist_perm` say what that gives.) -/
theorem storage_series_count_and_sum {K : Type} [DecidableEq K] (k : Kind) (cfg : Option Config) (ovf : K) (limit : Nat)
    (temps : List Temporality) (iter : List (K × Point) → List (K × Point)) (hiter : ∀ l, (iter l).Perm l)
    (ops : List (Op K Rat)) (hops : ∀ r, Op.collect r ∈ ops → r < temps.length) (hroom : recordCount ops + 1 < limit) (k0 : K) :
    let c : Cfg K Point Rat := { ag := histAgg k cfg, ovf := ovf, limit := limit, temps := temps, iter := iter }
    ((Store.run c (Store.init c) ops).2.map fun o => (o.1, outKey k0 (fun p : Point => p.count) o.2)) =
      specTotals c (fun k' _ => if k' = k0 then 1 else 0) (fun _ => 0) 0 ops ∧
    ((Store.run c (Store.init c) ops).2.map fun o => (o.1, outKey k0 (fun p : Point => p.sum) o.2)) =
      specTotals c (fun k' v => if k' = k0 then v else 0) (fun _ => 0) 0 ops := by
  intro c
  exact ⟨run_key_totals k0 c (countMeasure k cfg) hiter ops (Store.init c) (fun _ => 0) 0 0 (sinvK_init k0 c (countMeasure k cfg)) (by show 0 + recordCount ops + 1 < limit; omega) hops,
    run_key_totals k0 c (sumMeasure k cfg) hiter ops (Store.init c) (fun _ => 0) 0 0 (sinvK_init k0 c (sumMeasure k cfg)) (by show 0 + recordCount ops + 1 < limit; omega) hops⟩

open Otel.Series in
/-- `hist` is a homomorphism from the free aggregation (lists of values) to the histogram aggregation -/
theorem histHom (k : Kind) (cfg : Option Config) : AggHom (freeAgg : Agg Rat (List Rat)) (histAgg k cfg) (hist k cfg) :=
  { new := rfl
    add := fun a v => by simp [freeAgg, histAgg, hist, List.foldl_append]
    merge := fun a b => (merge_hom k cfg a b).symm }

open Otel.Series in
/-- **the whole point, per series, through the storage** (below the cardinality limit): for every history of `Record`s
    and `Collect`s, any number of delta and cumulative readers and any enumeration order of the hash tables, the point
    reported for attribute set `k0` at the `i`-th collect is `hist` of the values recorded with `k0` in that reader's
    interval (delta) / so far (cumulative) — "the point that recording all their values into one histogram would give".
    The values are given as the multiset the specification `specTotals` accumulates; by `hist_perm` any listing of it
    gives the same point.  (`iterL` is the enumeration order acting on the value-list tables of the free store; it
    must be the same reordering as `iterP`, i.e. the order may depend on keys and positions, not on the values.) -/
theorem storage_series_point {K : Type} [DecidableEq K] (k : Kind) (cfg : Option Config) (ovf : K) (limit : Nat)
    (temps : List Temporality) (iterP : List (K × Point) → List (K × Point)) (iterL : List (K × List Rat) → List (K × List Rat))
    (hiter : ∀ l, (iterL l).Perm l) (hcompat : ∀ es, iterP (mapE (hist k cfg) es) = mapE (hist k cfg) (iterL es))
    (ops : List (Op K Rat)) (hops : ∀ r, Op.collect r ∈ ops → r < temps.length) (hroom : recordCount ops + 1 < limit) (k0 : K) :
    let cP : Cfg K Point Rat := { ag := histAgg k cfg, ovf := ovf, limit := limit, temps := temps, iter := iterP }
    let spec := specTotals cP (fun k' v => if k' = k0 then ({v} : Multiset Rat) else 0) (fun _ => 0) 0 ops
    ∀ (i r : Nat) (es : List (K × Point)), (Store.run cP (Store.init cP) ops).2[i]? = some (r, some es) →
      ∀ p, lookupKey k0 es = some p →
        ∃ m, spec[i]? = some (r, m) ∧ ∀ l : List Rat, (l : Multiset Rat) = m → p = hist k cfg l := by
  intro cP spec i r es hi p hp
  let cL : Cfg K (List Rat) Rat := { ag := freeAgg, ovf := ovf, limit := limit, temps := temps, iter := iterL }
  have hc : CfgHom cL cP (hist k cfg) := { ag := histHom k cfg, ovf := rfl, limit := rfl, temps := rfl, iter := hcompat }
  -- the run with histograms is the image of the run with value lists
  have hrun := run_map hc ops (Store.init cL)
  rw [← init_map hc] at hrun
  -- per key, the value lists are what the specification says
  have hkey := run_key_totals k0 cL freeMeasure hiter ops (Store.init cL) (fun _ => 0) 0 0 (sinvK_init k0 cL freeMeasure)
    (by show 0 + recordCount ops + 1 < limit; omega) hops
  have hspec : spec = specTotals cL (fun k' v => if k' = k0 then ({v} : Multiset Rat) else 0) (fun _ => 0) 0 ops := by
    -- `specTotals` only looks at the readers' temporalities
    have : ∀ (pend : Nat → Multiset Rat) (all : Multiset Rat) (ops : List (Op K Rat)),
        specTotals cP (fun k' v => if k' = k0 then ({v} : Multiset Rat) else 0) pend all ops =
        specTotals cL (fun k' v => if k' = k0 then ({v} : Multiset Rat) else 0) pend all ops := by
      intro pend all ops
      induction ops generalizing pend all with
      | nil => rfl
      | cons op ops ih => cases op <;> simp [specTotals, ih] <;> rfl
    exact this _ _ _
  rw [hrun, List.getElem?_map] at hi
  cases hL : (Store.run cL (Store.init cL) ops).2[i]? with
  | none => rw [hL] at hi; simp at hi
  | some oL =>
    rw [hL] at hi
    simp only [Option.map_some, Option.some.injEq, Prod.mk.injEq] at hi
    obtain ⟨hr, hes⟩ := hi
    cases hoL : oL.2 with
    | none => rw [hoL] at hes; simp at hes
    | some esL =>
      rw [hoL] at hes
      simp only [Option.map_some, Option.some.injEq] at hes
      subst hes
      rw [lookupKey_mapE] at hp
      cases hl : lookupKey k0 esL with
      | none => rw [hl] at hp; simp at hp
      | some l0 =>
        rw [hl] at hp
        simp only [Option.map_some, Option.some.injEq] at hp
        have hmem : (oL.1, some esL) ∈ (Store.run cL (Store.init cL) ops).2 := by
          have := List.mem_of_getElem? hL
          rw [← hoL]; exact this
        have hnd := run_nodup cL ops (Store.init cL) (by simp [KeysNodup, Store.init, Table.empty]) oL.1 esL hmem
        refine ⟨(l0 : Multiset Rat), ?_, ?_⟩
        · have hkey' : List.map (fun o => (o.1, outKey k0 freeMeasure.μ o.2)) (Store.run cL (Store.init cL) ops).2 =
              specTotals cL (fun k' v => if k' = k0 then ({v} : Multiset Rat) else 0) (fun _ => 0) 0 ops := hkey
          rw [hspec, ← hkey', List.getElem?_map, hL]
          simp only [Option.map_some, Option.some.injEq, Prod.mk.injEq]
          refine ⟨hr, ?_⟩
          rw [hoL]
          show totK k0 freeMeasure.μ esL = _
          rw [totK_of_nodup k0 freeMeasure.μ esL hnd, hl]
          rfl
        · intro l hlm
          rw [← hp]
          exact hist_perm k cfg (Multiset.coe_eq_coe.mp hlm.symm)

open Otel.Series in
/-- the hypotheses on the enumeration orders are satisfiable: insertion order, reverse order, … -/
example (k : Kind) (cfg : Option Config) :
    (∀ l : List (Nat × List Rat), (id l).Perm l) ∧ (∀ es : List (Nat × List Rat), id (mapE (hist k cfg) es) = mapE (hist k cfg) (id es)) :=
  ⟨fun _ => List.Perm.refl _, fun _ => rfl⟩

open Otel.Series in
example (k : Kind) (cfg : Option Config) :
    (∀ l : List (Nat × List Rat), l.reverse.Perm l) ∧
    (∀ es : List (Nat × List Rat), (mapE (hist k cfg) es).reverse = mapE (hist k cfg) es.reverse) :=
  ⟨fun l => List.reverse_perm l, fun es => by simp [mapE, List.map_reverse]⟩

end Otel.C07
