import OtelVerif.Lemmas.Batch.Main
/-! # C02 — ForceFlush and Shutdown are complete, final and always return

Theorems about the batch processors' protocol model `Model/BatchAbs.lean`, for every schedule with any number of
producers, concurrent `ForceFlush` callers and `Shutdown` callers (the destructor path is one more caller), every
timeout value (a waiting `ForceFlush` caller may give up at any moment) and any exporter results (the protocol never
looks at them).  `head` counts the records committed to the queue; record number `k` is *exported* when
`k < exported`.  Ghosts: `bh` = `head` when a `ForceFlush` call began, `sdHead` = `head` when `is_shutdown` was set,
`flushedUpTo` = `exported` when the exporter's own `ForceFlush` last returned. -/
namespace Otel.C02
open Otel Otel.Batch

section batch
variable {maxQ maxB : Nat} (hb : 1 ≤ maxB) {as : List Act} {s : St} (h : run (init maxQ maxB) as = some s)
include hb h

/-- **ForceFlush complete**: if a `ForceFlush` call returned true, every record committed before the call began had
    been passed to `Export` when the exporter's own `ForceFlush` was invoked for it, and that has happened -/
theorem flush_complete (f bh : Nat) (hf : s.fl f = .ret bh true) : bh ≤ s.flushedUpTo ∧ s.flushedUpTo ≤ s.exported := by
  have hI := reachable_inv maxQ maxB hb as s h
  have := hI.f f
  unfold FInv at this; rw [hf] at this
  exact ⟨this rfl, hI.fluLe⟩

/-- a published ticket is always backed by an exporter flush that covered everything queued when it was issued -/
theorem published_tickets_flushed (t : Nat) (h1 : 1 ≤ t) (h2 : t ≤ s.notified) : s.tickHead t ≤ s.flushedUpTo :=
  (reachable_inv maxQ maxB hb as s h).ticks t h1 h2

/-- **the exporter is shut down at most once**, however many callers, threads and destructor paths -/
theorem exporter_shutdown_at_most_once : s.expShutdowns ≤ 1 := (reachable_inv maxQ maxB hb as s h).sdOnce

/-- … and **exactly once** as soon as some `Shutdown` call has returned; by then the worker has finished, has been
    joined, and everything committed before `is_shutdown` was set has been exported -/
theorem shutdown_returned (hr : s.sdReturned = true) :
    s.expShutdowns = 1 ∧ s.wpc = .done ∧ s.joined = true ∧ s.isShutdown = true ∧ s.sdHead ≤ s.exported ∧ s.exported = s.tail := by
  have hI := reachable_inv maxQ maxB hb as s h
  obtain ⟨a, b, c, d⟩ := hI.retd hr
  have hw := hI.w
  unfold WInv at hw; rw [d] at hw
  exact ⟨b, d, c, a, hw.2.2.2, hw.1⟩

/-- **Shutdown drains**: whenever a `Shutdown` caller is past the join (about to shut the exporter down, or later), the
    worker has finished and every record committed before `is_shutdown` was set has been exported -/
theorem shutdown_drains (i : Nat) (hs : s.sd i = .expB ∨ s.sd i = .expE ∨ s.sd i = .unlockP) :
    s.wpc = .done ∧ s.sdHead ≤ s.exported := by
  have hI := reachable_inv maxQ maxB hb as s h
  have hsd := hI.sd i
  unfold SInv at hsd
  have hd : s.wpc = .done := by
    rcases hs with hs | hs | hs <;> (rw [hs] at hsd; exact hsd.2.2.1)
  have hw := hI.w
  unfold WInv at hw; rw [hd] at hw
  exact ⟨hd, hw.2.2.2⟩

/-- **no exporter call after Shutdown has returned**: the ghost counter of `Export` / `ForceFlush` / `Shutdown` calls
    begun after some `Shutdown` call had returned stays zero -/
theorem no_exporter_call_after_shutdown_returned : s.lateCalls = 0 := (reachable_inv maxQ maxB hb as s h).late

omit hb h

/-- once the worker has finished nothing is exported any more (every step leaves `exported` unchanged) -/
theorem no_export_after_done (hd : s.wpc = .done) (a : Act) (s' : St) (hs : step s a = some s') :
    s'.exported = s.exported ∧ s'.wpc = .done ∧ s'.inExport = s.inExport := by
  cases a <;> simp only [step, wStep, fStep, sStep, pStep, hd] at hs <;> (repeat' split at hs) <;>
    first | (cases hs; exact ⟨rfl, hd, rfl⟩) | (cases hs; exact ⟨rfl, rfl, rfl⟩) | (cases hs; done) | (rename_i hx; cases hx; done) | (rename_i hx _; cases hx; done)

/-- `is_shutdown` is never reset -/
theorem shutdown_is_final (hsd : s.isShutdown = true) (a : Act) (s' : St) (hs : step s a = some s') :
    s'.isShutdown = true := by
  cases a <;> simp only [step, wStep, fStep, sStep, pStep] at hs <;> (repeat' split at hs) <;>
    first | (cases hs; exact hsd) | (cases hs; rfl) | (cases hs; done)


/-- **late calls are no-ops** — `OnEnd` / `OnEmit`: a producer that finds `is_shutdown` set returns without touching
    the queue -/
theorem late_onend_is_noop (s s' : St) (p : Nat) (hsd : s.isShutdown = true) (hp : s.pr p = .chk) (d : Bool)
    (hs : step s (.pStep p d) = some s') : s'.pr p = .noop ∧ s'.head = s.head ∧ s'.begun = s.begun := by
  simp only [step, pStep, hp] at hs; rw [if_pos hsd] at hs; cases hs
  exact ⟨by simp, rfl, rfl⟩

/-- … `ForceFlush`: a caller that finds `is_shutdown` set returns false without taking a ticket -/
theorem late_forceflush_returns_false (s s' : St) (f bh : Nat) (hsd : s.isShutdown = true) (hf : s.fl f = .chk bh) (r : Bool)
    (hs : step s (.fStep f r) = some s') : s'.fl f = .ret bh false ∧ s'.pending = s.pending := by
  simp only [step, fStep, hf] at hs; rw [if_pos hsd] at hs; cases hs
  exact ⟨by simp, rfl⟩

/-- … `Shutdown`: a caller that arrives after a completed shutdown (worker joined) goes straight to the unlock and
    returns without calling the exporter -/
theorem late_shutdown_is_noop (s s' : St) (i : Nat) (hsd : s.isShutdown = true) (hj : s.joined = true) (hi : s.sd i = .locked)
    (hs : step s (.sStep i) = some s') : s'.sd i = .unlockP ∧ s'.expShutdowns = s.expShutdowns := by
  simp only [step, sStep, hi] at hs; cases hs
  exact ⟨by simp [hsd, hj], rfl⟩

end batch

/-! ## Termination, in the form a model can carry

Under an adversarial scheduler nothing terminates; what the model can show is that a pending `ForceFlush` / `Shutdown`
is never stuck: the worker can always take a step until it has finished, a waiting `ForceFlush` caller can always
observe or give up, and after `is_shutdown` the worker's drain loop makes progress.  Fairness is the trusted part. -/

/-- the worker is never stuck: unless it is idle (then a wake-up is enabled) or has finished, its next step is enabled -/
theorem worker_never_stuck (s : St) : (s.wpc = .done) ∨ (step s .wWake).isSome = true ∨ (step s .wStep).isSome = true := by
  cases hpc : s.wpc with
  | idle => right; left; simp [step, hpc]
  | done => left; rfl
  | _ => right; right; simp only [step, wStep, hpc]; (repeat' split) <;> simp

/-- a waiting `ForceFlush` caller can always make a step (observe `notified` again, or return once it has observed) -/
theorem flusher_never_stuck (s : St) (f : Nat) (hf : ∀ bh ok, s.fl f ≠ .ret bh ok) : (step s (.fStep f false)).isSome = true := by
  cases hpc : s.fl f with
  | ret bh ok => exact absurd hpc (hf _ _)
  | chk bh => simp only [step, fStep, hpc]; split <;> simp
  | _ => simp [step, fStep, hpc]

/-- a `Shutdown` caller waits only for `shutdown_m` (held by another caller, who is never stuck in turn) and for the
    worker to finish -/
theorem shutdown_blocked_only_by (s : St) (i : Nat) (hne : s.sd i ≠ .ret) (hb : (step s (.sStep i)).isSome = false) :
    (s.sd i = .begin ∧ s.sdLock ≠ none) ∨ (∃ a, s.sd i = .joinW a ∧ s.wpc ≠ .done) := by
  cases hpc : s.sd i <;> simp only [step, sStep, hpc] at hb
  all_goals first
    | (simp at hb; done)
    | (left; refine ⟨rfl, ?_⟩; intro hn; simp [hn] at hb)
    | (right; refine ⟨_, rfl, ?_⟩; intro hd; simp [hd] at hb)
    | exact absurd hpc hne

/-! ## Non-vacuity: a ForceFlush that returns true, and a complete shutdown, are reachable -/
def demoFlush : List Act :=
  [.pStep 0 false, .pStep 0 false, .pStep 0 false,          -- one record committed
   .fStep 0 false, .fStep 0 false, .fStep 0 false,          -- ForceFlush: begin, is_shutdown false, ticket 1
   .wWake, .wStep, .wStep, .wStep, .wStep, .wStep, .wStep,  -- chk, ticket, size, consume, exportB, exportE
   .wStep, .wStep, .wStep, .wStep, .wStep,                  -- nChk, flushB, flushE, pubLd, pubCas (publishes)
   .fStep 0 false, .fStep 0 true]                           -- observe notified = 1, return
example : (run (init 2 1) demoFlush).map (fun s => (s.fl 0, s.exported, s.flushedUpTo, s.notified)) =
    some (.ret 1 true, 1, 1, 1) := by decide

end Otel.C02
