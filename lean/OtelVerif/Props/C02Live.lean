import OtelVerif.Lemmas.Batch.LiveShut
/-! # C02 — "…and always return": progress of the flush protocol

`Props/C02.lean` proves what is true when `ForceFlush` / `Shutdown` return and that no thread is ever stuck.  Here the
worker's progress is quantified.  `rank` (Lemmas/Batch/Live.lean) is a function of the worker's program counter that
every worker transition strictly lowers until the newest flush ticket is published, and that no transition of another
thread can raise unless it issues a further ticket.  So a `ForceFlush` caller waits for at most
`5 * max_queue_size + 24` transitions of the worker — exports of at most `max_queue_size` records that were queued when
the worker saw the ticket, plus bookkeeping — however the producers, other callers and `Shutdown` interleave.  What is
assumed (and cannot be proved about an adversarial scheduler) is only that the worker thread keeps being scheduled and
its timed wait expires: `wcount` counts its transitions.  The wake-up predicate of the waiting caller tests
`is_shutdown` first and `notified >= ticket` second (batch_span_processor.cc, `break_condition`), which is why `Served`
is the disjunction of the two. -/
namespace Otel.C02
open Otel Otel.Batch

/-- **ForceFlush is served**: from every reachable state `s`, along every continuation `post` of the schedule during
    which no further ticket is issued (`pending` unchanged), as soon as the worker has made `5 * maxQ + 24` transitions
    every ticket issued so far is published (`notified ≥ pending`) or the processor has been shut down -/
theorem flush_served_within {maxQ maxB : Nat} (hb : 1 ≤ maxB) (pre post : List Act) (s s' : St)
    (h0 : run (init maxQ maxB) pre = some s) (h1 : run s post = some s') (hp : s'.pending = s.pending)
    (hfair : 5 * maxQ + 24 ≤ wcount post) : s.pending ≤ s'.notified ∨ s'.isShutdown = true := by
  have hI := reachable_inv maxQ maxB hb pre s h0
  have hQ := reachable_qc maxQ maxB hb pre s h0
  have hq : s.maxQ = maxQ := (cfg_run _ _ pre h0).2
  have hr := rank_le s hI hQ
  exact served_of_wcount post s s' hI hQ h1 hp (by rw [hq] at hr; omega)

/-- the measure behind it, for one transition: a worker transition serves the newest ticket or strictly lowers `rank`;
    any other transition that issues no ticket leaves `rank` alone -/
theorem rank_decreases {maxQ maxB : Nat} (hb : 1 ≤ maxB) (pre : List Act) (s s' : St) (a : Act)
    (h0 : run (init maxQ maxB) pre = some s) (h : step s a = some s') (hp : s'.pending = s.pending)
    (hns : ¬ Served s.pending s) :
    (isW a = true → Served s.pending s' ∨ rank s' < rank s) ∧ (isW a = false → rank s' = rank s) := by
  have hI := reachable_inv maxQ maxB hb pre s h0
  have hQ := reachable_qc maxQ maxB hb pre s h0
  refine ⟨fun ha => (worker_goal s s' a ha hI hQ h).2.2.2.2.2 hns, fun ha => ?_⟩
  obtain ⟨b1, b2, b3, _⟩ := other_step s s' a ha h
  exact rank_other s s' b1 b2 b3 hp

/-- once its ticket is published, a waiting `ForceFlush` caller's next look at `notified` makes it return **true** -/
theorem served_flusher_returns_true {maxQ maxB : Nat} (hb : 1 ≤ maxB) (pre : List Act) (s : St)
    (h0 : run (init maxQ maxB) pre = some s) (f bh cur : Nat) (seen : Option Nat) (hf : s.fl f = .wait bh cur seen)
    (hs : s.pending ≤ s.notified) :
    ∃ s1 s2, step s (.fStep f false) = some s1 ∧ step s1 (.fStep f true) = some s2 ∧ s2.fl f = .ret bh true := by
  have hI := reachable_inv maxQ maxB hb pre s h0
  have hfi := hI.f f
  unfold FInv at hfi; rw [hf] at hfi
  simp only at hfi
  have hc : cur ≤ s.notified := by omega
  let s1 : St := { s with fl := Ring.upd s.fl f (.wait bh cur (some s.notified)) }
  have e1 : step s (.fStep f false) = some s1 := by simp [step, fStep, hf, s1]
  have hf1 : s1.fl f = .wait bh cur (some s.notified) := by simp [s1, Ring.upd_same]
  let s2 : St := { s1 with fl := Ring.upd s1.fl f (.ret bh (decide (s.notified ≥ cur))) }
  have e2 : step s1 (.fStep f true) = some s2 := by simp [step, fStep, hf1, s2]
  refine ⟨s1, s2, e1, e2, ?_⟩
  simp [s2, Ring.upd_same, hc]

/-- a queue snapshot never exceeds `max_queue_size` in a reachable state (used by the rank bound) -/
theorem queue_within_capacity {maxQ maxB : Nat} (hb : 1 ≤ maxB) (pre : List Act) (s : St)
    (h0 : run (init maxQ maxB) pre = some s) : s.head - s.tail ≤ maxQ := by
  have := (reachable_qc maxQ maxB hb pre s h0).1
  rw [(cfg_run _ _ pre h0).2] at this; exact this

/-- **Shutdown's join returns**: from every reachable state in which `is_shutdown` is set, along every continuation
    during which the environment is quiet (no producer that had already passed the `is_shutdown` test commits a record,
    no `ForceFlush` caller that had passed it issues a ticket: `head` and `pending` unchanged), the worker has reached
    the end of `DoBackgroundWork` once it has made `32 * (maxQ + unpublished tickets) + 32` transitions; the queue is
    then empty and everything is exported (`shutdown_drains`), and the `join()` of the `Shutdown` caller is enabled -/
theorem worker_terminates_within {maxQ maxB : Nat} (hb : 1 ≤ maxB) (pre post : List Act) (s s' : St)
    (h0 : run (init maxQ maxB) pre = some s) (hsd : s.isShutdown = true) (h1 : run s post = some s')
    (hh : s'.head = s.head) (hp : s'.pending = s.pending)
    (hfair : 32 * (maxQ + (s.pending - s.notified)) + 32 ≤ wcount post) : s'.wpc = .done := by
  have hI := reachable_inv maxQ maxB hb pre s h0
  have hQ := reachable_qc maxQ maxB hb pre s h0
  have hq : s.maxQ = maxQ := (cfg_run _ _ pre h0).2
  have hr := rank2_le s hQ
  exact done_of_wcount post s s' hI hQ hsd h1 hh hp (by rw [hq] at hr; omega)

/-- the same **without any assumption on the environment**: along every continuation whatsoever, each record that a
    producer still commits and each ticket that a `ForceFlush` caller still issues after `is_shutdown` (there are finitely
    many of either: each thread passes the `is_shutdown` test at most once more) costs at most 64 further worker
    transitions -/
theorem worker_terminates {maxQ maxB : Nat} (hb : 1 ≤ maxB) (pre post : List Act) (s s' : St)
    (h0 : run (init maxQ maxB) pre = some s) (hsd : s.isShutdown = true) (h1 : run s post = some s')
    (hfair : 32 * (maxQ + (s.pending - s.notified)) + 32 + 64 * ((s'.head - s.head) + (s'.pending - s.pending)) ≤ wcount post) :
    s'.wpc = .done := by
  have hI := reachable_inv maxQ maxB hb pre s h0
  have hQ := reachable_qc maxQ maxB hb pre s h0
  have hq : s.maxQ = maxQ := (cfg_run _ _ pre h0).2
  have hr := rank2_le s hQ
  exact done_of_wcount_noisy post s s' hI hQ hsd h1 (by rw [hq] at hr; omega)

/-- the measure behind it, for one transition after `is_shutdown`: a worker transition strictly lowers `rank2`; a
    transition of any other thread that neither commits a record nor issues a ticket leaves it alone -/
theorem rank2_decreases {maxQ maxB : Nat} (hb : 1 ≤ maxB) (pre : List Act) (s s' : St) (a : Act)
    (h0 : run (init maxQ maxB) pre = some s) (hsd : s.isShutdown = true) (h : step s a = some s') :
    (isW a = true → rank2 s' < rank2 s) ∧
    (isW a = false → s'.head = s.head → s'.pending = s.pending → rank2 s' = rank2 s) := by
  have hI := reachable_inv maxQ maxB hb pre s h0
  have hQ := reachable_qc maxQ maxB hb pre s h0
  obtain ⟨_, _, _, a4, a5⟩ := quiet_step s s' a hI hQ hsd h
  exact ⟨fun ha => (a4 ha).1, a5⟩

/-- … and once the worker has finished, the `Shutdown` caller that waits in `join()` can go on -/
theorem join_enabled_when_done (s : St) (i : Nat) (a : Bool) (hj : s.sd i = .joinW a) (hd : s.wpc = .done) :
    (step s (.sStep i)).isSome = true := by
  simp [step, sStep, hj, hd]

/-! ## Non-vacuity: a schedule that meets the hypotheses (one queued record, one ticket, then 34 worker transitions) -/
def demoPre : List Act :=
  [.pStep 0 false, .pStep 0 false, .pStep 0 false,          -- one record committed
   .fStep 0 false, .fStep 0 false, .fStep 0 false]          -- ForceFlush: begin, is_shutdown false, ticket 1
def demoRound1 : List Act :=
  [.wWake, .wStep, .wStep, .wStep, .wStep, .wStep, .wStep,  -- chk, ticket, size, consume, exportB, exportE
   .wStep, .wStep, .wStep, .wStep, .wStep, .wStep,          -- nChk, flushB, flushE, pubLd, pubCas (publishes), pubCas (leaves)
   .wStep, .wStep, .wStep]                                  -- ticket, size (queue empty), nChk -> idle
def demoIdleRound : List Act := [.wWake, .wStep, .wStep, .wStep, .wStep]   -- chk, ticket, size, nChk -> idle
def demoPost : List Act := demoRound1 ++ demoIdleRound ++ demoIdleRound ++ demoIdleRound ++ demoIdleRound

example : (run (init 1 1) demoPre).map (fun s => (s.pending, s.notified, s.head)) = some (1, 0, 1) := by decide
example : ((run (init 1 1) demoPre).bind (fun s => run s demoPost)).map (fun s => (s.pending, s.notified, s.exported)) =
    some (1, 1, 1) := by decide
example : 5 * 1 + 24 ≤ wcount demoPost := by decide


/-- shutdown: one queued record, `Shutdown` sets the flag, the worker drains and finishes (rank2 of the start is 96) -/
def demoShutPre : List Act :=
  [.pStep 0 false, .pStep 0 false, .pStep 0 false,          -- one record committed
   .sStep 0, .sStep 0, .sStep 0]                            -- Shutdown: begin, lock, is_shutdown := true (then waits in join)
def demoShutPost : List Act :=
  [.wWake, .wStep, .wStep, .wStep,                          -- chk -> dEmpty -> (queue not empty) ticket -> size
   .wStep, .wStep, .wStep, .wStep, .wStep,                  -- consume, exportB, exportE, nChk (R = 0), back to ticket
   .wStep, .wStep, .wStep,                                  -- size (empty), nChk, dEmpty
   .wStep, .wStep, .wStep]                                  -- dPend, dNot, done
example : (run (init 1 1) demoShutPre).map (fun s => (s.isShutdown, s.head, s.pending, rank2 s)) = some (true, 1, 0, 37) := by decide
example : ((run (init 1 1) demoShutPre).bind (fun s => run s demoShutPost)).map (fun s => (s.wpc, s.head, s.pending, s.exported)) =
    some (.done, 1, 0, 1) := by decide

end Otel.C02
