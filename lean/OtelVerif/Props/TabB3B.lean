import OtelVerif.Model.TabB3
import OtelVerif.Gen.TabB3
import OtelVerif.Lemmas.Tab
/-! # The model equals the code's graph (`Gen/TabB3.lean`), second part: the sampling field through `B3Propagator::Extract` (single header and multi header) -/
namespace Otel.Tab
open Otel

theorem tab_b3ExtractSingleFlag : ∀ b : UInt8, TabModel.b3ExtractSingleFlag b = Gen.Tab.b3ExtractSingleFlag b := forall_byte _ (by decide +kernel)
theorem tab_b3ExtractMultiFlag : ∀ b : UInt8, TabModel.b3ExtractMultiFlag b = Gen.Tab.b3ExtractMultiFlag b := forall_byte _ (by decide +kernel)

end Otel.Tab
