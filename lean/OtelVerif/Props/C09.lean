import OtelVerif.Model.TraceContext
import OtelVerif.Lemmas.Bytes
/-! # C09 — W3C trace-context propagation round-trips and only accepts well-formed headers

Property theorems about `Model/TraceContext.lean` (which mirrors `http_trace_context.h`, `detail/hex.h`,
`detail/string.h`, `string_util.h`); the digit tables, `kHexDigits` and the size constants come from
`Gen/Hex.lean`, re-extracted from the source on every run.  The numbers of the property text
(55, 32, 16, 2, version `ff`) are literals here. -/
namespace Otel.C09
open Otel Otel.TraceContext

/-! ## The specification vocabulary (written from the W3C text, independent of the code's tables) -/

/-- lower-case hex digit of a nibble -/
def lowerDigit (n : Nat) : UInt8 := if n < 10 then UInt8.ofNat (48 + n) else UInt8.ofNat (87 + n)

/-- lower-case base16 of a byte string -/
def lowerHex (bs : Bytes) : Bytes := bs.flatMap fun b => [lowerDigit (b.toNat / 16), lowerDigit (b.toNat % 16)]

/-- `HEXDIG`, either case -/
def IsHexChar (c : UInt8) : Prop := (48 ≤ c ∧ c ≤ 57) ∨ (97 ≤ c ∧ c ≤ 102) ∨ (65 ≤ c ∧ c ≤ 70)

instance : DecidablePred IsHexChar := fun c => by unfold IsHexChar; exact inferInstance

def digitVal (c : UInt8) : Nat :=
  if c ≤ 57 then c.toNat - 48 else if c ≤ 70 then c.toNat - 55 else c.toNat - 87

/-- value of a string of hex-digit pairs -/
def decodeHex : Bytes → Bytes
  | a :: b :: t => UInt8.ofNat (digitVal a * 16 + digitVal b) :: decodeHex t
  | _ => []

def NonZero (bs : Bytes) : Prop := ∃ b ∈ bs, b ≠ 0

/-- **The W3C level-1 `traceparent` grammar** for a (trimmed) header `t` denoting ids `tid`, `sid` and flags `fl`:
    `version "-" trace-id "-" parent-id "-" trace-flags`, 2/32/16/2 hex digits of either case, version ≠ `ff`,
    nothing after the flags for version `00`, for higher versions optionally `"-"` and anything; ids non-zero. -/
def WellFormed (t tid sid : Bytes) (fl : UInt8) : Prop :=
  ∃ ver tidh sidh flh rest,
    t = ver ++ 45 :: (tidh ++ 45 :: (sidh ++ 45 :: (flh ++ rest))) ∧
    ver.length = 2 ∧ tidh.length = 32 ∧ sidh.length = 16 ∧ flh.length = 2 ∧
    (∀ c ∈ ver, IsHexChar c) ∧ (∀ c ∈ tidh, IsHexChar c) ∧ (∀ c ∈ sidh, IsHexChar c) ∧ (∀ c ∈ flh, IsHexChar c) ∧
    decodeHex ver ≠ [255] ∧
    (rest = [] ∨ (decodeHex ver ≠ [0] ∧ ∃ r, rest = 45 :: r)) ∧
    decodeHex tidh = tid ∧ decodeHex sidh = sid ∧ decodeHex flh = [fl] ∧
    NonZero tid ∧ NonZero sid

/-! ## Byte-level facts, each over all 256 values (`decide +kernel`), tied to the generated tables -/

theorem traceId_table_lower : ∀ b : UInt8, hexOfByte Gen.traceIdHex b = [lowerDigit (b.toNat / 16), lowerDigit (b.toNat % 16)] :=
  forall_byte _ (by decide +kernel)
theorem spanId_table_lower : ∀ b : UInt8, hexOfByte Gen.spanIdHex b = [lowerDigit (b.toNat / 16), lowerDigit (b.toNat % 16)] :=
  forall_byte _ (by decide +kernel)
/-- `TraceFlags::ToLowerBase16` writes lower-case digits (D04: the as-is table was upper-case) -/
theorem traceFlags_table_lower : ∀ b : UInt8, hexOfByte Gen.traceFlagsHex b = [lowerDigit (b.toNat / 16), lowerDigit (b.toNat % 16)] :=
  forall_byte _ (by decide +kernel)

theorem isHexDigit_iff : ∀ c : UInt8, isHexDigit c = true ↔ IsHexChar c :=
  forall_byte _ (by decide +kernel)

theorem hexToInt_eq_digitVal : ∀ c : UInt8, IsHexChar c → (hexToInt c).toNat = digitVal c :=
  forall_byte _ (by decide +kernel)

theorem hexToInt_lt16 : ∀ c : UInt8, IsHexChar c → (hexToInt c).toNat < 16 :=
  forall_byte _ (by decide +kernel)

theorem lowerDigit_facts : ∀ n, n < 16 → IsHexChar (lowerDigit n) ∧ lowerDigit n ≠ 45 ∧ isSpace (lowerDigit n) = false ∧
    digitVal (lowerDigit n) = n := by decide +kernel

theorem pair_decode : ∀ b : UInt8, UInt8.ofNat (digitVal (lowerDigit (b.toNat / 16)) * 16 + digitVal (lowerDigit (b.toNat % 16))) = b :=
  forall_byte _ (by decide +kernel)

theorem hexChar_not_dash : ∀ c : UInt8, IsHexChar c → c ≠ 45 := forall_byte _ (by decide +kernel)
theorem hexChar_not_space : ∀ c : UInt8, IsHexChar c → isSpace c = false := forall_byte _ (by decide +kernel)

theorem shl_or : ∀ x, x < 16 → ∀ y, y < 16 → (UInt8.ofNat x <<< 4) ||| UInt8.ofNat y = UInt8.ofNat (x * 16 + y) := by
  decide +kernel

theorem pair_combine (a b : UInt8) (ha : IsHexChar a) (hb : IsHexChar b) :
    (hexToInt a <<< 4) ||| hexToInt b = UInt8.ofNat (digitVal a * 16 + digitVal b) := by
  have ea : hexToInt a = UInt8.ofNat (digitVal a) := by
    rw [← hexToInt_eq_digitVal a ha]; simp
  have eb : hexToInt b = UInt8.ofNat (digitVal b) := by
    rw [← hexToInt_eq_digitVal b hb]; simp
  rw [ea, eb]
  exact shl_or _ (by rw [← hexToInt_eq_digitVal a ha]; exact hexToInt_lt16 a ha) _
    (by rw [← hexToInt_eq_digitVal b hb]; exact hexToInt_lt16 b hb)

/-! ## Encoding / decoding lemmas -/

theorem hexOfBytes_lower (tab : List UInt8)
    (h : ∀ b : UInt8, hexOfByte tab b = [lowerDigit (b.toNat / 16), lowerDigit (b.toNat % 16)]) (bs : Bytes) :
    hexOfBytes tab bs = lowerHex bs := by
  unfold hexOfBytes lowerHex
  induction bs with
  | nil => rfl
  | cons b t ih => simp [List.flatMap_cons, h b, ih]

theorem lowerHex_cons (b : UInt8) (t : Bytes) :
    lowerHex (b :: t) = lowerDigit (b.toNat / 16) :: lowerDigit (b.toNat % 16) :: lowerHex t := by
  simp [lowerHex, List.flatMap_cons]

theorem lowerHex_length (bs : Bytes) : (lowerHex bs).length = 2 * bs.length := by
  induction bs with
  | nil => rfl
  | cons b t ih => rw [lowerHex_cons]; simp [ih]; omega

theorem lowerHex_hex (bs : Bytes) : ∀ c ∈ lowerHex bs, IsHexChar c := by
  induction bs with
  | nil => intro c h; simp [lowerHex] at h
  | cons b t ih =>
    intro c h
    rw [lowerHex_cons] at h
    simp only [List.mem_cons] at h
    have h1 := lowerDigit_facts (b.toNat / 16) (by have := b.toNat_lt; omega)
    have h2 := lowerDigit_facts (b.toNat % 16) (by omega)
    rcases h with h | h | h
    · rw [h]; exact h1.1
    · rw [h]; exact h2.1
    · exact ih c h

theorem decodeHex_lowerHex (bs : Bytes) : decodeHex (lowerHex bs) = bs := by
  induction bs with
  | nil => rfl
  | cons b t ih => rw [lowerHex_cons]; simp only [decodeHex, ih, pair_decode]

theorem hexPairs_eq_decode : ∀ s : Bytes, (∀ c ∈ s, IsHexChar c) → hexPairs s = decodeHex s
  | [], _ => rfl
  | [_], _ => rfl
  | a :: b :: t, h => by
    have ha := h a (by simp)
    have hb := h b (by simp)
    simp only [hexPairs, decodeHex, pair_combine a b ha hb]
    rw [hexPairs_eq_decode t (fun c hc => h c (by simp [hc]))]

theorem isValidHex_of (s : Bytes) (h : ∀ c ∈ s, IsHexChar c) : isValidHex s = true := by
  simp only [isValidHex, List.all_eq_true]
  intro c hc
  exact (isHexDigit_iff c).2 (h c hc)

theorem of_isValidHex (s : Bytes) (h : isValidHex s = true) : ∀ c ∈ s, IsHexChar c := by
  simp only [isValidHex, List.all_eq_true] at h
  intro c hc
  exact (isHexDigit_iff c).1 (h c hc)

theorem hexToBinary_exact (s : Bytes) (n : Nat) (hl : s.length = 2 * n) (h : ∀ c ∈ s, IsHexChar c) :
    hexToBinary s n = (true, decodeHex s) := by
  unfold hexToBinary
  have h1 : ¬ s.length > 2 * n := by omega
  have h2 : ¬ s.length % 2 = 1 := by omega
  have h3 : n - (s.length + 1) / 2 = 0 := by omega
  simp only [h1, h2, h3, if_false, List.replicate_zero, List.nil_append, hexPairs_eq_decode s h]

theorem decodeHex_length : ∀ s : Bytes, (decodeHex s).length = s.length / 2
  | [] => rfl
  | [_] => by simp [decodeHex]
  | a :: b :: t => by simp [decodeHex, decodeHex_length t]; omega

theorem not_dash_of_hex (s : Bytes) (h : ∀ c ∈ s, IsHexChar c) : (45 : UInt8) ∉ s :=
  fun hm => hexChar_not_dash 45 (h 45 hm) rfl

theorem allZero_false_iff (bs : Bytes) : allZero bs = false ↔ NonZero bs := by
  unfold allZero NonZero
  constructor
  · intro h
    induction bs with
    | nil => simp at h
    | cons b t ih =>
      simp only [List.all_cons, Bool.and_eq_false_iff] at h
      rcases h with h | h
      · exact ⟨b, by simp, by simpa using h⟩
      · obtain ⟨c, hc, hne⟩ := ih h
        exact ⟨c, by simp [hc], hne⟩
  · rintro ⟨b, hb, hne⟩
    cases hz : bs.all (· == 0) with
    | false => rfl
    | true =>
      simp only [List.all_eq_true, beq_iff_eq] at hz
      exact absurd (hz b hb) hne

/-! ## The two directions of "accepts exactly the well-formed headers" on the trimmed header -/

theorem gen_sizes : Gen.kVersionSize = 2 ∧ Gen.kTraceIdSize = 32 ∧ Gen.kSpanIdSize = 16 ∧ Gen.kTraceFlagsSize = 2 ∧
    Gen.kTraceParentSize = 55 ∧ Gen.kInvalidVersion = 255 ∧ Gen.kDefaultAssumedVersion = 0 := by decide

theorem decode2 (s : Bytes) (h : s.length = 2) : ∃ x, decodeHex s = [x] := by
  match s, h with
  | [a, b], _ => exact ⟨_, rfl⟩

theorem extract_of_wellformed (t ts tid sid : Bytes) (fl : UInt8) (h : WellFormed t tid sid fl) :
    extractFromHeaders t ts = some { traceId := tid, spanId := sid, flags := fl, remote := true,
                                     traceState := TraceState.fromHeader ts } := by
  obtain ⟨ver, tidh, sidh, flh, rest, ht, lv, lt, ls, lf, hv, htd, hsd, hfd, hff, hrest, etid, esid, efl, nzt, nzs⟩ := h
  have dv := not_dash_of_hex _ hv
  have dt := not_dash_of_hex _ htd
  have ds := not_dash_of_hex _ hsd
  have df := not_dash_of_hex _ hfd
  have hsplit : splitString 45 4 t = [ver, tidh, sidh, flh] := by
    rcases hrest with hr | ⟨_, r, hr⟩
    · subst hr; rw [ht, List.append_nil]; exact splitString4_exact _ _ _ _ dv dt ds df
    · subst hr; rw [ht]; exact splitString4_more _ _ _ _ _ dv dt ds df
  obtain ⟨g1, g2, g3, g4, g5, g6, g7⟩ := gen_sizes
  obtain ⟨v, hvx⟩ := decode2 ver lv
  have htl : t.length = 55 + rest.length := by rw [ht]; simp; omega
  have hbv : hexToBinary ver 1 = (true, [v]) := by rw [hexToBinary_exact ver 1 (by omega) hv, hvx]
  have hbt : hexToBinary tidh 16 = (true, tid) := by rw [hexToBinary_exact tidh 16 (by omega) htd, etid]
  have hbs : hexToBinary sidh 8 = (true, sid) := by rw [hexToBinary_exact sidh 8 (by omega) hsd, esid]
  have hbf : hexToBinary flh 1 = (true, [fl]) := by rw [hexToBinary_exact flh 1 (by omega) hfd, efl]
  have hv255 : ¬ v.toNat = 255 := by
    intro e
    apply hff
    rw [hvx]
    congr
    exact UInt8.toNat_inj.1 (by simpa using e)
  have hlen : (if v.toNat > 0 then decide (t.length < 55) else decide (t.length ≠ 55)) = false := by
    split
    · simp; omega
    · rename_i hz
      have hz' : v = 0 := UInt8.toNat_inj.1 (by simp; omega)
      rcases hrest with hr | ⟨hne, _⟩
      · subst hr; simp [htl]
      · exact absurd (by rw [hvx, hz']) hne
  simp only [extractFromHeaders, hsplit, g1, g2, g3, g4, g5, g6, g7, lv, lt, ls, lf, isValidHex_of _ hv,
    isValidHex_of _ htd, isValidHex_of _ hsd, isValidHex_of _ hfd, hbv, hbt, hbs, hbf, List.headD_cons,
    hv255, hlen, (allZero_false_iff tid).2 nzt, (allZero_false_iff sid).2 nzs]
  simp

theorem wellformed_of_extract (t ts : Bytes) (sc : SpanCtx) (h : extractFromHeaders t ts = some sc) :
    WellFormed t sc.traceId sc.spanId sc.flags ∧ sc.remote = true ∧ sc.traceState = TraceState.fromHeader ts := by
  obtain ⟨g1, g2, g3, g4, g5, g6, g7⟩ := gen_sizes
  unfold extractFromHeaders at h
  split at h
  · rename_i ver tidh sidh flh hsplit
    simp only [g1, g2, g3, g4, g5, g6, g7] at h
    split at h
    · cases h
    · rename_i hlen
      simp only [Bool.or_eq_true, bne_iff_ne, ne_eq, not_or, Decidable.not_not] at hlen
      obtain ⟨⟨⟨lv, lt⟩, ls⟩, lf⟩ := hlen
      split at h
      · cases h
      · rename_i hhex
        simp only [Bool.or_eq_true, Bool.not_eq_true', not_or, Bool.not_eq_false] at hhex
        obtain ⟨⟨⟨xv, xt⟩, xs⟩, xf⟩ := hhex
        have hv := of_isValidHex _ xv
        have htd := of_isValidHex _ xt
        have hsd := of_isValidHex _ xs
        have hfd := of_isValidHex _ xf
        obtain ⟨v, hvx⟩ := decode2 ver lv
        obtain ⟨f, hfx⟩ := decode2 flh lf
        have hbv : hexToBinary ver 1 = (true, [v]) := by rw [hexToBinary_exact ver 1 (by omega) hv, hvx]
        have hbf : hexToBinary flh 1 = (true, [f]) := by rw [hexToBinary_exact flh 1 (by omega) hfd, hfx]
        have hbt : hexToBinary tidh 16 = (true, decodeHex tidh) := hexToBinary_exact tidh 16 (by omega) htd
        have hbs : hexToBinary sidh 8 = (true, decodeHex sidh) := hexToBinary_exact sidh 8 (by omega) hsd
        simp only [hbv, hbf, hbt, hbs, List.headD_cons] at h
        by_cases hv255 : v.toNat = 255
        · rw [if_pos hv255] at h; cases h
        · rw [if_neg hv255] at h
          by_cases hlenc : (if v.toNat > 0 then decide (t.length < 55) else decide (t.length ≠ 55)) = true
          · rw [if_pos hlenc] at h; cases h
          · rw [if_neg hlenc] at h
            by_cases hz : (allZero (decodeHex tidh) || allZero (decodeHex sidh)) = true
            · rw [if_pos hz] at h; cases h
            · rw [if_neg hz] at h
              simp only [Bool.or_eq_true, not_or, Bool.not_eq_true] at hz
              cases h
              obtain ⟨d1, d2, d3, d4, hshape⟩ := splitString4_spec hsplit
              refine ⟨?_, rfl, rfl⟩
              have hne255 : decodeHex ver ≠ [255] := by
                rw [hvx]; intro e; apply hv255; cases e; rfl
              rcases hshape with e | ⟨r, e⟩
              · exact ⟨ver, tidh, sidh, flh, [], by simpa using e, lv, lt, ls, lf, hv, htd, hsd, hfd, hne255, Or.inl rfl,
                  rfl, rfl, hfx, (allZero_false_iff _).1 hz.1, (allZero_false_iff _).1 hz.2⟩
              · refine ⟨ver, tidh, sidh, flh, 45 :: r, e, lv, lt, ls, lf, hv, htd, hsd, hfd, hne255, Or.inr ⟨?_, r, rfl⟩,
                  rfl, rfl, hfx, (allZero_false_iff _).1 hz.1, (allZero_false_iff _).1 hz.2⟩
                intro e0
                rw [hvx] at e0
                have hv0 : v = 0 := by cases e0; rfl
                have htl : t.length = 56 + r.length := by rw [e]; simp; omega
                apply hlenc
                subst hv0
                simp; omega
  · cases h

/-! ## The property theorems -/

/-- *Extraction accepts exactly the well-formed headers* (up to hex-digit case, and surrounding white space removed
    by `trim`): for **every** byte string `tp` in `traceparent` and `ts` in `tracestate`, a span context is installed
    iff the trimmed header is non-empty and matches the W3C grammar, and then it is the remote context with exactly
    the encoded ids and flags.  `extract = none` is "the caller's context is returned unchanged". -/
theorem extract_iff_wellformed (tp ts : Bytes) (sc : SpanCtx) :
    extract tp ts = some sc ↔
      (WellFormed (trim tp) sc.traceId sc.spanId sc.flags ∧ sc.remote = true ∧ sc.traceState = TraceState.fromHeader ts) := by
  unfold extract
  constructor
  · intro h
    simp only at h
    split at h
    · cases h
    · exact wellformed_of_extract _ _ _ h
  · rintro ⟨hw, hr, hts⟩
    have hne : (trim tp).isEmpty = false := by
      obtain ⟨ver, _, _, _, _, ht, lv, _⟩ := hw
      rw [ht]
      match ver, lv with
      | [a, b], _ => rfl
    simp only [hne]
    rw [extract_of_wellformed _ ts _ _ _ hw]
    cases sc
    simp_all

/-- what is installed is always a valid context: non-zero ids (an invalid span context is never installed) -/
theorem extract_some_valid (tp ts : Bytes) (sc : SpanCtx) (h : extract tp ts = some sc) :
    sc.isValid = true ∧ sc.traceId.length = 16 ∧ sc.spanId.length = 8 ∧ sc.remote = true := by
  obtain ⟨⟨ver, tidh, sidh, flh, rest, _, _, lt, ls, _, _, _, _, _, _, _, etid, esid, _, nzt, nzs⟩, hr, _⟩ :=
    (extract_iff_wellformed tp ts sc).1 h
  refine ⟨?_, ?_, ?_, hr⟩
  · simp [SpanCtx.isValid, (allZero_false_iff _).2 nzt, (allZero_false_iff _).2 nzs]
  · rw [← etid, decodeHex_length, lt]
  · rw [← esid, decodeHex_length, ls]

/-- an invalid span context is never injected -/
theorem inject_invalid_none (sc : SpanCtx) (h : sc.isValid = false) : inject sc = none := by
  simp [inject, h]

/-- **Shape of the injected header**: for every valid span context the `traceparent` is exactly
    `00-<32 lower-case hex>-<16 lower-case hex>-<2 lower-case hex>`, 55 bytes; the `tracestate` is written iff
    the state's header is non-empty. -/
theorem inject_shape (sc : SpanCtx) (hv : sc.isValid = true) (ht : sc.traceId.length = 16) (hs : sc.spanId.length = 8) :
    ∃ tp tso, inject sc = some (tp, tso) ∧
      tp = [48, 48, 45] ++ lowerHex sc.traceId ++ [45] ++ lowerHex sc.spanId ++ [45] ++ lowerHex [sc.flags] ∧
      tp.length = 55 ∧
      (tso = none ↔ TraceState.toHeader sc.traceState = []) ∧
      (∀ h, tso = some h → h = TraceState.toHeader sc.traceState) := by
  refine ⟨[48, 48, 45] ++ lowerHex sc.traceId ++ [45] ++ lowerHex sc.spanId ++ [45] ++ lowerHex [sc.flags],
    if (TraceState.toHeader sc.traceState).isEmpty then none else some (TraceState.toHeader sc.traceState), ?_, rfl, ?_, ?_, ?_⟩
  · simp only [inject, hv, Bool.not_true, Bool.false_eq_true, if_false, traceIdToHex, spanIdToHex, flagsToHex,
      hexOfBytes_lower _ traceId_table_lower, hexOfBytes_lower _ spanId_table_lower, traceFlags_table_lower]
    simp [lowerHex]
  · simp [lowerHex_length, ht, hs]
  · cases h : TraceState.toHeader sc.traceState <;> simp
  · intro h; cases hh : TraceState.toHeader sc.traceState <;> simp
    intro e; exact e.symm

/-- **Round trip**: extracting what was injected for a valid span context yields the remote context with the same
    trace id, span id and flags byte (all 256), and the trace state parsed back from the written header
    (equal to the original by C14's `fromHeader_toHeader`). -/
theorem extract_inject (sc : SpanCtx) (hv : sc.isValid = true) (ht : sc.traceId.length = 16) (hs : sc.spanId.length = 8) :
    ∃ tp tso, inject sc = some (tp, tso) ∧
      extract tp (tso.getD []) =
        some { sc with remote := true, traceState := TraceState.fromHeader (TraceState.toHeader sc.traceState) } := by
  obtain ⟨tp, tso, hi, htp, _, hnone, hsome⟩ := inject_shape sc hv ht hs
  refine ⟨tp, tso, hi, ?_⟩
  have hts : tso.getD [] = TraceState.toHeader sc.traceState := by
    cases tso with
    | none => simp [hnone.1 rfl]
    | some h => simp [hsome h rfl]
  rw [hts]
  simp only [SpanCtx.isValid, Bool.and_eq_true, Bool.not_eq_true'] at hv
  have hw : WellFormed tp sc.traceId sc.spanId sc.flags := by
    refine ⟨[48, 48], lowerHex sc.traceId, lowerHex sc.spanId, lowerHex [sc.flags], [], ?_, rfl, ?_, ?_, rfl, ?_,
      lowerHex_hex _, lowerHex_hex _, lowerHex_hex _, by decide, Or.inl rfl, decodeHex_lowerHex _, decodeHex_lowerHex _,
      decodeHex_lowerHex _, (allZero_false_iff _).1 hv.1, (allZero_false_iff _).1 hv.2⟩
    · rw [htp]; simp
    · rw [lowerHex_length, ht]
    · rw [lowerHex_length, hs]
    · decide
  -- the injected header starts with '0' and ends with a hex digit: `Trim` leaves it alone
  have htrim : trim tp = tp := by
    have hlast : ∃ m d, lowerHex [sc.flags] = m ++ [d] ∧ isSpace d = false := by
      refine ⟨[lowerDigit (sc.flags.toNat / 16)], lowerDigit (sc.flags.toNat % 16), by simp [lowerHex], ?_⟩
      exact (lowerDigit_facts _ (by omega)).2.2.1
    obtain ⟨m, d, hm, hd⟩ := hlast
    apply trim_id_of_ends tp 48 d ([48, 45] ++ lowerHex sc.traceId ++ [45] ++ lowerHex sc.spanId ++ [45] ++ m)
    · rw [htp, hm]; simp
    · decide
    · exact hd
  rw [(extract_iff_wellformed tp _ _).2]
  rw [htrim]
  exact ⟨hw, rfl, rfl⟩

/-! ## Further entry points: `Fields()`, the static `…FromHex` helpers -/

/-- `Fields()` names exactly `traceparent` and `tracestate` (the two headers of the statement), in that order, and
    returns true when the callback never declines -/
theorem fields_names :
    fields 0 = ([[116, 114, 97, 99, 101, 112, 97, 114, 101, 110, 116], [116, 114, 97, 99, 101, 115, 116, 97, 116, 101]], true) := by
  decide

/-- a declining callback sees a prefix of those names and `Fields()` answers false -/
theorem fields_stop (n : Nat) (h0 : 0 < n) (h2 : n ≤ 2) : fields n = ((fields 0).1.take n, false) := by
  have : n = 1 ∨ n = 2 := by omega
  rcases this with rfl | rfl <;> decide

/-- `TraceIdFromHex` inverts `TraceId::ToLowerBase16` -/
theorem idFromHex_traceIdToHex (id : Bytes) (h : id.length = 16) : idFromHex 16 (traceIdToHex id) = id := by
  unfold idFromHex traceIdToHex
  rw [hexOfBytes_lower _ traceId_table_lower,
    hexToBinary_exact _ 16 (by rw [lowerHex_length]; omega) (lowerHex_hex id), decodeHex_lowerHex]

/-- `SpanIdFromHex` inverts `SpanId::ToLowerBase16` -/
theorem idFromHex_spanIdToHex (id : Bytes) (h : id.length = 8) : idFromHex 8 (spanIdToHex id) = id := by
  unfold idFromHex spanIdToHex
  rw [hexOfBytes_lower _ spanId_table_lower,
    hexToBinary_exact _ 8 (by rw [lowerHex_length]; omega) (lowerHex_hex id), decodeHex_lowerHex]

/-- `TraceFlagsFromHex` inverts `TraceFlags::ToLowerBase16`, for all 256 flag bytes -/
theorem idFromHex_flagsToHex (f : UInt8) : idFromHex 1 (flagsToHex f) = [f] := by
  have e : flagsToHex f = hexOfBytes Gen.traceFlagsHex [f] := by simp [flagsToHex, hexOfBytes]
  unfold idFromHex
  rw [e, hexOfBytes_lower _ traceFlags_table_lower,
    hexToBinary_exact _ 1 (by rw [lowerHex_length]; rfl) (lowerHex_hex [f]), decodeHex_lowerHex]

/-- an input that does not fit yields the all-zero (invalid) id, never a partial one -/
theorem idFromHex_overlong (n : Nat) (hex : Bytes) (h : hex.length > 2 * n) : idFromHex n hex = List.replicate n 0 := by
  unfold idFromHex hexToBinary
  rw [if_pos h]

/-! ## Non-vacuity: the hypotheses are met by concrete contexts / headers -/

def exampleCtx : SpanCtx :=
  { traceId := [1,2,3,4,5,6,7,8,9,10,11,12,13,14,15,16], spanId := [1,2,3,4,5,6,7,8], flags := 0xAB, remote := false, traceState := [] }

example : exampleCtx.isValid = true ∧ exampleCtx.traceId.length = 16 ∧ exampleCtx.spanId.length = 8 := by decide
example : (inject exampleCtx).map (·.1.length) = some 55 := by decide
example : (extract ((inject exampleCtx).get!.1) []).map (·.flags) = some 0xAB := by decide +kernel

end Otel.C09
