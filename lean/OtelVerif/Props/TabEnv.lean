import OtelVerif.Model.TabEnv
import OtelVerif.Gen.TabEnv
import OtelVerif.Lemmas.Tab
/-! # The model equals the code's graph: the environment readers of `env_variables.cc`

The kernel evaluates the `Env` model slowly (it computes in `Nat` with 2^64 bounds on every step), so the kernel-checked
statements cover the first 200 entries of each table (in the order of `harness/tab/tab_sdk.cc`); EVERY entry of the four tables
(1 000+ strings) is compared with the compiled model on every run by `tools/tabdiff.py`. -/
namespace Otel.Tab
open Otel

/-- all 48 case variants of `true` / `false`, the empty value, the one-byte values 1..151 -/
theorem tab_envBool_head : ∀ p ∈ Gen.Tab.envBool.take 200, TabModel.envBool p.1 = p.2 := graph_of_all _ _ (by decide +kernel)
/-- the unit table: no unit, `ns us ms s m h`, 17 near misses (`NS`, `Ms`, `1 s`, `sec`, `min`, `d`, …), then `1<unit>` for the
    first 176 units of length ≤ 2 over `[a-z]` (`""`, `a`..`z`, `aa`..`ft`) -/
theorem tab_envDurUnit_head : ∀ p ∈ Gen.Tab.envDurUnit.take 200, TabModel.envDur p.1 = p.2 := graph_of_all _ _ (by decide +kernel)
/-- empty value, then `<b>`, `1<b>`, `<b>1` for the bytes 1..66 (control characters, white space, signs, digits, `A`, `B`) -/
theorem tab_envDurByte_head : ∀ p ∈ Gen.Tab.envDurByte.take 200, TabModel.envDur p.1 = p.2 := graph_of_all _ _ (by decide +kernel)
theorem tab_envUintByte_head : ∀ p ∈ Gen.Tab.envUintByte.take 200, TabModel.envUint p.1 = p.2 := graph_of_all _ _ (by decide +kernel)

end Otel.Tab
