import OtelVerif.Model.TabEnv
import OtelVerif.Gen.TabEnv
import OtelVerif.Lemmas.Tab
/-! # The model equals the code's graph: the environment readers of `env_variables.cc` -/
namespace Otel.Tab
open Otel

/-- every case variant of `true` / `false`, the empty value, every one-byte value, near misses -/
theorem tab_envBool : ∀ p ∈ Gen.Tab.envBool, TabModel.envBool p.1 = p.2 := graph_of_all _ _ (by decide +kernel)
/-- the unit table: `1<unit>` for every unit of length ≤ 2 over `[a-z]` -/
theorem tab_envDurUnit : ∀ p ∈ Gen.Tab.envDurUnit, TabModel.envDur p.1 = p.2 := graph_of_all _ _ (by decide +kernel)

end Otel.Tab
