import OtelVerif.Model.TraceState
import OtelVerif.Lemmas.Bytes
import OtelVerif.Lemmas.Regex
/-! # C14 — TraceState stays a valid, duplicate-free W3C list under every update

Theorems about `Model/TraceState.lean` + `Model/KvList.lean` (mirroring `trace_state.h`, `kv_properties.h`).
The validators are the three `std::regex` literals re-extracted from the source (`Gen/TraceState.lean`); the
W3C grammar below is written by hand from the header's documentation.  32 / 256 / 241 / 14 are literals here. -/
namespace Otel.C14
open Otel Otel.TraceState

/-! ## The W3C grammar (hand-written) -/

def IsLcAlnum (c : UInt8) : Prop := (97 ≤ c ∧ c ≤ 122) ∨ (48 ≤ c ∧ c ≤ 57)
def IsKeyChar (c : UInt8) : Prop := IsLcAlnum c ∨ c = 95 ∨ c = 45 ∨ c = 42 ∨ c = 47
/-- printable ASCII except `,` and `=` -/
def IsValChar (c : UInt8) : Prop := 32 ≤ c ∧ c ≤ 126 ∧ c ≠ 44 ∧ c ≠ 61

instance : DecidablePred IsLcAlnum := fun c => by unfold IsLcAlnum; exact inferInstance
instance : DecidablePred IsKeyChar := fun c => by unfold IsKeyChar; exact inferInstance
instance : DecidablePred IsValChar := fun c => by unfold IsValChar; exact inferInstance

/-- `[a-z0-9]` followed by at most 255 key characters (256 characters in all) -/
def SimpleKey (k : Bytes) : Prop := ∃ c t, k = c :: t ∧ IsLcAlnum c ∧ (∀ x ∈ t, IsKeyChar x) ∧ t.length ≤ 255
/-- `tenant@system`: tenant ≤ 241 characters, system ≤ 14 characters, each starting with `[a-z0-9]` -/
def TenantKey (k : Bytes) : Prop := ∃ c t c' t', k = (c :: t) ++ 64 :: (c' :: t') ∧ IsLcAlnum c ∧ (∀ x ∈ t, IsKeyChar x) ∧
  t.length ≤ 240 ∧ IsLcAlnum c' ∧ (∀ x ∈ t', IsKeyChar x) ∧ t'.length ≤ 13
def ValidKey (k : Bytes) : Prop := SimpleKey k ∨ TenantKey k
/-- 1…256 printable characters without `,` `=`, not ending in a space -/
def ValidValue (v : Bytes) : Prop := ∃ t c, v = t ++ [c] ∧ (∀ x ∈ t, IsValChar x) ∧ t.length ≤ 255 ∧ IsValChar c ∧ c ≠ 32

def ValidEntry (e : Bytes × Bytes) : Prop := ValidKey e.1 ∧ ValidValue e.2
/-- a well-formed trace state: only grammar-valid members, at most 32 of them -/
def WF (es : Entries) : Prop := (∀ e ∈ es, ValidEntry e) ∧ es.length ≤ 32

/-! ## The generated regexes mean exactly that grammar -/

def clsStart : RxItem := ⟨[(48, 57), (97, 122)], 1, some 1⟩
def clsKey (n : Nat) : RxItem := ⟨[(42, 42), (45, 45), (47, 57), (95, 95), (97, 122)], 0, some n⟩

theorem gen_regKey : Gen.regKey = [clsStart, clsKey 255] := rfl
theorem gen_regKeyMt : Gen.regKeyMultitenant = [clsStart, clsKey 240, ⟨[(64, 64)], 1, some 1⟩, clsStart, clsKey 13] := rfl
theorem gen_regValue : Gen.regValue = [⟨[(32, 43), (45, 60), (62, 126)], 0, some 255⟩, ⟨[(33, 43), (45, 60), (62, 126)], 1, some 1⟩] := rfl
theorem gen_consts : Gen.kMaxKeyValuePairs = 32 ∧ Gen.kKeyValueSeparator = 61 ∧ Gen.kMembersSeparator = 44 := by decide

theorem clsStart_has : ∀ c : UInt8, clsStart.has c = true ↔ IsLcAlnum c := forall_byte _ (by decide +kernel)
theorem clsKey_has (n : Nat) : ∀ c : UInt8, (clsKey n).has c = true ↔ IsKeyChar c := by
  have : ∀ c : UInt8, (clsKey 0).has c = true ↔ IsKeyChar c := forall_byte _ (by decide +kernel)
  intro c; exact this c
theorem clsAt_has : ∀ c : UInt8, (⟨[(64, 64)], 1, some 1⟩ : RxItem).has c = true ↔ c = 64 := forall_byte _ (by decide +kernel)
theorem clsVal_has : ∀ c : UInt8, (⟨[(32, 43), (45, 60), (62, 126)], 0, some 255⟩ : RxItem).has c = true ↔ IsValChar c :=
  forall_byte _ (by decide +kernel)
theorem clsValEnd_has : ∀ c : UInt8, (⟨[(33, 43), (45, 60), (62, 126)], 1, some 1⟩ : RxItem).has c = true ↔ (IsValChar c ∧ c ≠ 32) :=
  forall_byte _ (by decide +kernel)

/-- an item `{1,1}` consumes exactly one byte of its class -/
theorem RxSem_one (r : List (Nat × Nat)) (rest : List RxItem) (s : Bytes) :
    RxSem (⟨r, 1, some 1⟩ :: rest) s ↔ ∃ c t, s = c :: t ∧ (⟨r, 1, some 1⟩ : RxItem).has c = true ∧ RxSem rest t := by
  simp only [RxSem, RxItem.allows]
  constructor
  · rintro ⟨a, b, hab, hlo, hal, hall, hb⟩
    simp only [decide_eq_true_eq] at hal
    match a, hlo, hal with
    | [c], _, _ => exact ⟨c, b, by simpa using hab, hall c (by simp), hb⟩
  · rintro ⟨c, t, hs, hc, ht⟩
    exact ⟨[c], t, by simpa using hs, by simp, by simp, by simpa using hc, ht⟩

/-- an item `{0,n}` consumes at most `n` bytes of its class -/
theorem RxSem_upto (r : List (Nat × Nat)) (n : Nat) (rest : List RxItem) (s : Bytes) :
    RxSem (⟨r, 0, some n⟩ :: rest) s ↔
      ∃ a b, s = a ++ b ∧ a.length ≤ n ∧ (∀ c ∈ a, (⟨r, 0, some n⟩ : RxItem).has c = true) ∧ RxSem rest b := by
  simp only [RxSem, RxItem.allows, decide_eq_true_eq, Nat.zero_le, true_and]

theorem isValidKey_iff (k : Bytes) : isValidKey k = true ↔ ValidKey k := by
  unfold isValidKey ValidKey
  rw [Bool.or_eq_true, rxMatch_iff, rxMatch_iff, gen_regKey, gen_regKeyMt]
  apply or_congr
  · unfold clsStart clsKey SimpleKey
    rw [RxSem_one]
    constructor
    · rintro ⟨c, t, rfl, hc, ht⟩
      rw [RxSem_upto] at ht
      obtain ⟨a, b, rfl, hl, hall, hb⟩ := ht
      simp only [RxSem] at hb; subst hb
      exact ⟨c, a ++ [], rfl, (clsStart_has c).1 hc, fun x hx => (clsKey_has 255 x).1 (hall x (by simpa using hx)), by simpa using hl⟩
    · rintro ⟨c, t, rfl, hc, hall, hl⟩
      refine ⟨c, t, rfl, (clsStart_has c).2 hc, ?_⟩
      rw [RxSem_upto]
      exact ⟨t, [], by simp, hl, fun x hx => (clsKey_has 255 x).2 (hall x hx), rfl⟩
  · unfold clsStart clsKey TenantKey
    rw [RxSem_one]
    constructor
    · rintro ⟨c, t, rfl, hc, ht⟩
      rw [RxSem_upto] at ht
      obtain ⟨a, b, rfl, hl, hall, hb⟩ := ht
      rw [RxSem_one] at hb
      obtain ⟨at', b2, rfl, hat, hb2⟩ := hb
      rw [RxSem_one] at hb2
      obtain ⟨c', t', rfl, hc', ht'⟩ := hb2
      rw [RxSem_upto] at ht'
      obtain ⟨a', b', rfl, hl', hall', hb'⟩ := ht'
      simp only [RxSem] at hb'; subst hb'
      rw [(clsAt_has at').1 hat]
      exact ⟨c, a, c', a' ++ [], by simp, (clsStart_has c).1 hc, fun x hx => (clsKey_has 240 x).1 (hall x hx), hl,
        (clsStart_has c').1 hc', fun x hx => (clsKey_has 13 x).1 (hall' x (by simpa using hx)), by simpa using hl'⟩
    · rintro ⟨c, t, c', t', rfl, hc, hall, hl, hc', hall', hl'⟩
      refine ⟨c, t ++ 64 :: c' :: t', by simp, (clsStart_has c).2 hc, ?_⟩
      rw [RxSem_upto]
      refine ⟨t, 64 :: c' :: t', rfl, hl, fun x hx => (clsKey_has 240 x).2 (hall x hx), ?_⟩
      rw [RxSem_one]
      refine ⟨64, c' :: t', rfl, (clsAt_has 64).2 rfl, ?_⟩
      rw [RxSem_one]
      refine ⟨c', t', rfl, (clsStart_has c').2 hc', ?_⟩
      rw [RxSem_upto]
      exact ⟨t', [], by simp, hl', fun x hx => (clsKey_has 13 x).2 (hall' x hx), rfl⟩

theorem isValidValue_iff (v : Bytes) : isValidValue v = true ↔ ValidValue v := by
  unfold isValidValue ValidValue
  rw [rxMatch_iff, gen_regValue, RxSem_upto]
  constructor
  · rintro ⟨a, b, rfl, hl, hall, hb⟩
    rw [RxSem_one] at hb
    obtain ⟨c, t, rfl, hc, ht⟩ := hb
    simp only [RxSem] at ht; subst ht
    exact ⟨a, c, rfl, fun x hx => (clsVal_has x).1 (hall x hx), hl, ((clsValEnd_has c).1 hc).1, ((clsValEnd_has c).1 hc).2⟩
  · rintro ⟨t, c, rfl, hall, hl, hc, hne⟩
    refine ⟨t, [c], rfl, hl, fun x hx => (clsVal_has x).2 (hall x hx), ?_⟩
    rw [RxSem_one]
    exact ⟨c, [], rfl, (clsValEnd_has c).2 ⟨hc, hne⟩, rfl⟩

/-! ## `KeyValueProperties`: adding with enough capacity is appending -/

theorem add_entries (p : KvProps) (k v : Bytes) (h : p.entries.length < p.cap) :
    (p.add k v).entries = p.entries ++ [(k, v)] ∧ (p.add k v).cap = p.cap := by
  simp [KvProps.add, h]

theorem add_cap (p : KvProps) (k v : Bytes) : (p.add k v).cap = p.cap := by
  unfold KvProps.add; split <;> rfl

theorem add_length_le (p : KvProps) (k v : Bytes) (h : p.entries.length ≤ p.cap) :
    (p.add k v).entries.length ≤ (p.add k v).cap := by
  unfold KvProps.add
  split
  · simp; omega
  · exact h

/-- copying the entries selected by `f` into a table with room for them appends exactly those, in order -/
theorem foldl_add_filter (f : Bytes × Bytes → Bool) : ∀ (es : Entries) (p : KvProps),
    p.entries.length + (es.filter f).length ≤ p.cap →
    (es.foldl (fun p e => if f e then p.add e.1 e.2 else p) p).entries = p.entries ++ es.filter f
  | [], p, _ => by simp
  | e :: t, p, h => by
    simp only [List.foldl_cons]
    by_cases hf : f e = true
    · simp only [hf, if_true, List.filter_cons_of_pos] at h ⊢
      have hlt : p.entries.length < p.cap := by simp at h; omega
      obtain ⟨h1, h2⟩ := add_entries p e.1 e.2 hlt
      rw [foldl_add_filter f t (p.add e.1 e.2) (by rw [h1, h2]; simp at h ⊢; omega), h1]
      simp
    · simp only [hf, Bool.false_eq_true, if_false] at h ⊢
      rw [List.filter_cons_of_neg (by simpa using hf)] at h ⊢
      exact foldl_add_filter f t p h

theorem foldl_add_all (es : Entries) (p : KvProps) (h : p.entries.length + es.length ≤ p.cap) :
    (es.foldl (fun p e => p.add e.1 e.2) p).entries = p.entries ++ es := by
  have hf : es.filter (fun _ => true) = es := List.filter_eq_self.2 (fun _ _ => rfl)
  have := foldl_add_filter (fun _ => true) es p (by rw [hf]; exact h)
  rw [hf] at this
  simpa using this

theorem filter_length_lt_of_any (f : Bytes × Bytes → Bool) : ∀ (es : Entries), es.any (fun e => !f e) = true →
    (es.filter f).length < es.length
  | [], h => by simp at h
  | e :: t, h => by
    simp only [List.any_cons, Bool.or_eq_true] at h
    by_cases hf : f e = true
    · rw [List.filter_cons_of_pos hf]
      have ht : t.any (fun e => !f e) = true := by
        rcases h with h | h
        · simp [hf] at h
        · exact h
      have := filter_length_lt_of_any f t ht
      simp only [List.length_cons]; omega
    · rw [List.filter_cons_of_neg hf]
      have := List.length_filter_le f t
      simp only [List.length_cons]; omega

/-! ## Set / Delete / Get -/

/-- **What `Set` does**, for every list and every valid key/value: if the key is already present, or there are fewer
    than 32 members, the result is the new member first followed by every other member once, in its previous order
    (all members with that key removed); otherwise (a new key on a full list) the list is returned unchanged. -/
theorem set_spec (es : Entries) (k v : Bytes) (hk : isValidKey k = true) (hv : isValidValue v = true) :
    set es k v = if es.any (·.1 == k) || decide (es.length < 32) then (k, v) :: es.filter (fun e => !(e.1 == k)) else es := by
  obtain ⟨g1, _, _⟩ := gen_consts
  unfold TraceState.set
  simp only [hk, hv, Bool.and_self, Bool.not_true, Bool.false_eq_true, if_false, g1]
  by_cases hex : es.any (·.1 == k) = true
  · -- update of an existing key
    have hpos : 0 < es.length := by
      cases es with
      | nil => simp at hex
      | cons => simp
    simp only [hex, Bool.not_true, Bool.false_and, Bool.false_eq_true, if_false, Bool.true_or, if_true, Bool.false_or]
    have hadd := add_entries (⟨es.length, []⟩ : KvProps) k v (by simpa using hpos)
    have hflt : (es.filter (fun e => !(k == e.1))).length < es.length :=
      filter_length_lt_of_any _ es (by
        rw [List.any_eq_true] at hex ⊢
        obtain ⟨e, he, hke⟩ := hex
        exact ⟨e, he, by simp at hke ⊢; exact hke.symm⟩)
    rw [foldl_add_filter (fun e => !(k == e.1)) es _ (by rw [hadd.1, hadd.2]; simp; omega), hadd.1]
    simp only [List.nil_append, List.cons_append, List.cons.injEq, true_and]
    congr 1
    funext e
    rw [Bool.beq_comm]
  · have hex' : es.any (·.1 == k) = false := by
      cases hh : es.any (·.1 == k) with
      | false => rfl
      | true => exact absurd hh hex
    simp only [hex', Bool.not_false, Bool.true_and, Bool.false_or, Bool.true_or, if_true]
    have hnone : es.filter (fun e => !(e.1 == k)) = es := by
      rw [List.filter_eq_self]
      intro e he
      have := List.any_eq_false.1 hex' e he
      cases hek : (e.1 == k) with
      | false => rfl
      | true => exact absurd hek this
    by_cases hl : es.length < 32
    · simp only [hl, decide_true, if_true]
      have hadd := add_entries (⟨es.length + 1, []⟩ : KvProps) k v (by simp)
      rw [foldl_add_all es _ (by rw [hadd.1, hadd.2]; simp; omega), hadd.1, hnone]
      simp
    · simp only [hl, decide_false, Bool.false_eq_true, if_false]
      rw [foldl_add_all es _ (by simp)]
      simp

/-- an invalid key or value yields the empty default state, not a partial one -/
theorem set_invalid_default (es : Entries) (k v : Bytes) (h : isValidKey k = false ∨ isValidValue v = false) :
    set es k v = [] := by
  unfold TraceState.set
  rcases h with h | h <;> simp [h]

/-- `Set` places the given key first with the new value -/
theorem set_places_first (es : Entries) (k v : Bytes) (hk : isValidKey k = true) (hv : isValidValue v = true)
    (hroom : es.any (·.1 == k) = true ∨ es.length < 32) :
    ∃ rest, set es k v = (k, v) :: rest ∧ rest = es.filter (fun e => !(e.1 == k)) := by
  rw [set_spec es k v hk hv]
  have : (es.any (·.1 == k) || decide (es.length < 32)) = true := by
    rcases hroom with h | h <;> simp [h]
  simp [this]

/-- … and never produces a second member with the same key: the key occurs exactly once in the result -/
theorem set_key_unique (es : Entries) (k v : Bytes) (hk : isValidKey k = true) (hv : isValidValue v = true)
    (hroom : es.any (·.1 == k) = true ∨ es.length < 32) :
    ((set es k v).filter (fun e => e.1 == k)).length = 1 := by
  obtain ⟨rest, h1, h2⟩ := set_places_first es k v hk hv hroom
  rw [h1, h2]
  simp [List.filter_filter]

/-- every other member is kept once and in its previous relative order -/
theorem set_keeps_others (es : Entries) (k v : Bytes) (hk : isValidKey k = true) (hv : isValidValue v = true)
    (hroom : es.any (·.1 == k) = true ∨ es.length < 32) :
    (set es k v).filter (fun e => !(e.1 == k)) = es.filter (fun e => !(e.1 == k)) := by
  obtain ⟨rest, h1, h2⟩ := set_places_first es k v hk hv hroom
  rw [h1, h2]
  simp [List.filter_filter]

/-- a key not yet present is refused with an unchanged copy when the list already holds 32 members -/
theorem set_full_new_refused (es : Entries) (k v : Bytes) (hk : isValidKey k = true) (hv : isValidValue v = true)
    (hnew : es.any (·.1 == k) = false) (hfull : 32 ≤ es.length) : set es k v = es := by
  rw [set_spec es k v hk hv]
  have : ¬ es.length < 32 := by omega
  simp [hnew, this]

/-- … while a key that is present is updated even at 32 members (D06) -/
theorem set_full_existing_updates (es : Entries) (k v : Bytes) (hk : isValidKey k = true) (hv : isValidValue v = true)
    (hex : es.any (·.1 == k) = true) : set es k v = (k, v) :: es.filter (fun e => !(e.1 == k)) := by
  rw [set_spec es k v hk hv]; simp [hex]

/-- `Delete` removes exactly the given key: every member with another key stays, in order -/
theorem delete_exact (es : Entries) (k : Bytes) (hk : isValidKey k = true) :
    delete es k = es.filter (fun e => !(e.1 == k)) := by
  unfold TraceState.delete
  simp only [hk, Bool.not_true, Bool.false_eq_true, if_false]
  have hcap : (es.filter (fun e => !(k == e.1))).length ≤ (if es.any (·.1 == k) = true then es.length - 1 else es.length) := by
    split
    · rename_i hex
      have := filter_length_lt_of_any (fun e => !(k == e.1)) es (by
        rw [List.any_eq_true] at hex ⊢
        obtain ⟨e, he, hke⟩ := hex
        exact ⟨e, he, by simp at hke ⊢; exact hke.symm⟩)
      omega
    · exact List.length_filter_le _ _
  rw [foldl_add_filter (fun e => !(k == e.1)) es _ (by simpa using hcap)]
  simp only [List.nil_append]
  congr 1
  funext e
  rw [Bool.beq_comm]

theorem delete_invalid_default (es : Entries) (k : Bytes) (hk : isValidKey k = false) : delete es k = [] := by
  simp [TraceState.delete, hk]

/-- `Get` returns the value most recently set -/
theorem get_set (es : Entries) (k v : Bytes) (hk : isValidKey k = true) (hv : isValidValue v = true)
    (hroom : es.any (·.1 == k) = true ∨ es.length < 32) : get (set es k v) k = some v := by
  obtain ⟨rest, h1, _⟩ := set_places_first es k v hk hv hroom
  unfold TraceState.get
  simp [hk, h1]

/-- `Get` of another key is unaffected by `Set` -/
theorem get_set_other (es : Entries) (k v k' : Bytes) (hk : isValidKey k = true) (hv : isValidValue v = true)
    (hroom : es.any (·.1 == k) = true ∨ es.length < 32) (hne : k' ≠ k) : get (set es k v) k' = get es k' := by
  obtain ⟨rest, h1, h2⟩ := set_places_first es k v hk hv hroom
  unfold TraceState.get
  split
  · rw [h1, h2]
    have hkk : ((k, v).1 == k') = false := by simpa using fun e => hne e.symm
    rw [List.find?_cons_of_neg (by simpa using hkk), List.find?_filter]
    congr 2
    funext e
    by_cases he : e.1 == k' <;> simp [he]
    intro hek
    simp at he
    exact hne (he.symm.trans hek)
  · rfl

/-- after `Delete` the key is gone -/
theorem get_delete (es : Entries) (k : Bytes) (hk : isValidKey k = true) : get (delete es k) k = none := by
  rw [delete_exact es k hk]
  unfold TraceState.get
  simp [hk, List.find?_filter]

/-! ## Well-formedness is preserved -/

theorem wf_set (es : Entries) (k v : Bytes) (h : WF es) : WF (set es k v) := by
  by_cases hk : isValidKey k = true
  · by_cases hv : isValidValue v = true
    · rw [set_spec es k v hk hv]
      split
      · rename_i hc
        refine ⟨?_, ?_⟩
        · intro e he
          simp only [List.mem_cons, List.mem_filter] at he
          rcases he with rfl | ⟨he, _⟩
          · exact ⟨(isValidKey_iff _).1 hk, (isValidValue_iff _).1 hv⟩
          · exact h.1 e he
        · simp only [Bool.or_eq_true, decide_eq_true_eq] at hc
          simp only [List.length_cons]
          rcases hc with hc | hc
          · have := filter_length_lt_of_any (fun e => !(e.1 == k)) es (by simpa using hc)
            have := h.2
            omega
          · have := List.length_filter_le (fun e => !(e.1 == k)) es
            omega
      · exact h
    · rw [set_invalid_default es k v (Or.inr (by simpa using hv))]; exact ⟨by simp, by simp⟩
  · rw [set_invalid_default es k v (Or.inl (by simpa using hk))]; exact ⟨by simp, by simp⟩

theorem wf_delete (es : Entries) (k : Bytes) (h : WF es) : WF (delete es k) := by
  by_cases hk : isValidKey k = true
  · rw [delete_exact es k hk]
    exact ⟨fun e he => h.1 e (List.mem_filter.1 he).1, Nat.le_trans (List.length_filter_le _ _) h.2⟩
  · rw [delete_invalid_default es k (by simpa using hk)]; exact ⟨by simp, by simp⟩

/-! ## FromHeader -/

/-- what `FromHeader` accepts for one list member: `key=value` split at the first `=`, both grammar-valid -/
def parseValid (m : Bytes) : Option (Bytes × Bytes) :=
  match splitKv 61 m with
  | none => none
  | some (k, v) => if isValidKey k && isValidValue v then some (k, v) else none

theorem kvMembers_length_le (sep : UInt8) : ∀ (fuel : Nat) (s : Bytes),
    (kvMembers sep fuel s).length ≤ numTokens sep fuel s
  | 0, s => by simp [kvMembers, numTokens]
  | fuel + 1, [] => by simp [kvMembers, numTokens]
  | fuel + 1, c :: t => by
    simp only [kvMembers, numTokens]
    generalize takeTok sep (c :: t) = r
    obtain ⟨tok, o⟩ := r
    cases o with
    | none => simp only; split <;> simp
    | some rest =>
      simp only
      have := kvMembers_length_le sep fuel rest
      split <;> simp <;> omega

theorem parseMembers_spec : ∀ (ms : List Bytes) (p : KvProps), p.entries.length + ms.length ≤ p.cap →
    parseMembers 61 ms p = (ms.mapM parseValid).map (fun l => ⟨p.cap, p.entries ++ l⟩)
  | [], p, _ => by simp [parseMembers]
  | m :: ms, p, h => by
    simp only [parseMembers, List.mapM_cons, parseValid]
    cases hs : splitKv 61 m with
    | none => simp
    | some kv =>
      obtain ⟨k, v⟩ := kv
      simp only
      by_cases hval : (isValidKey k && isValidValue v) = true
      · simp only [hval, if_true]
        have hlt : p.entries.length < p.cap := by simp at h; omega
        obtain ⟨h1, h2⟩ := add_entries p k v hlt
        rw [parseMembers_spec ms (p.add k v) (by rw [h1, h2]; simp at h ⊢; omega), h1, h2]
        cases ms.mapM parseValid <;> simp
      · simp [hval]

/-- **`FromHeader` is all-or-nothing**: for every header byte string, the result is the empty default state when
    the header has more than 32 list members or any member is not a grammar-valid `key=value`; otherwise it is
    exactly the members, in order. -/
theorem fromHeader_spec (h : Bytes) :
    fromHeader h = if numTok 44 h > 32 then [] else ((members 44 h).mapM parseValid).getD [] := by
  obtain ⟨g1, g2, g3⟩ := gen_consts
  unfold fromHeader
  simp only [g1, g2, g3]
  split
  · rfl
  · rw [parseMembers_spec _ _ (by simpa [members, numTok] using kvMembers_length_le 44 h.length h)]
    cases (members 44 h).mapM parseValid <;> simp

theorem mapM_parseValid_valid : ∀ (ms : List Bytes) (l : Entries), ms.mapM parseValid = some l →
    (∀ e ∈ l, ValidEntry e) ∧ l.length = ms.length
  | [], l, h => by simp at h; subst h; simp
  | m :: ms, l, h => by
    simp only [List.mapM_cons] at h
    cases hp : parseValid m with
    | none => simp [hp] at h
    | some e =>
      cases hr : ms.mapM parseValid with
      | none => simp [hp, hr] at h
      | some l' =>
        simp [hp, hr] at h
        subst h
        obtain ⟨ih1, ih2⟩ := mapM_parseValid_valid ms l' hr
        refine ⟨?_, by simp [ih2]⟩
        intro x hx
        simp only [List.mem_cons] at hx
        rcases hx with rfl | hx
        · unfold parseValid at hp
          split at hp
          · cases hp
          · rename_i k v _
            split at hp
            · rename_i hv
              cases hp
              simp only [Bool.and_eq_true] at hv
              exact ⟨(isValidKey_iff _).1 hv.1, (isValidValue_iff _).1 hv.2⟩
            · cases hp
        · exact ih1 x hx

/-- every TraceState obtained by parsing a header contains only grammar-valid keys and values and at most 32 members -/
theorem wf_fromHeader (h : Bytes) : WF (fromHeader h) := by
  rw [fromHeader_spec]
  split
  · exact ⟨by simp, by simp⟩
  · rename_i hc
    cases hm : (members 44 h).mapM parseValid with
    | none => exact ⟨by simp, by simp⟩
    | some l =>
      obtain ⟨h1, h2⟩ := mapM_parseValid_valid _ l hm
      refine ⟨by simpa using h1, ?_⟩
      have := kvMembers_length_le 44 h.length h
      simp only [Option.getD_some, h2]
      unfold members
      unfold numTok at hc
      omega

/-- a header with more than 32 list members yields the empty default state -/
theorem overlong_header_empty (h : Bytes) (hc : numTok 44 h > 32) : fromHeader h = [] := by
  rw [fromHeader_spec]; simp [hc]

/-- a header with an invalid member yields the empty default state rather than a partial one -/
theorem invalid_member_header_empty (h : Bytes) (m : Bytes) (hm : m ∈ members 44 h) (hbad : parseValid m = none) :
    fromHeader h = [] := by
  rw [fromHeader_spec]
  split
  · rfl
  · have : (members 44 h).mapM parseValid = none := by
      generalize members 44 h = ms at hm
      induction ms with
      | nil => simp at hm
      | cons x xs ih =>
        simp only [List.mapM_cons]
        simp only [List.mem_cons] at hm
        rcases hm with rfl | hm
        · simp [hbad]
        · cases parseValid x <;> simp [ih hm]
    simp [this]

/-! ## ToHeader followed by FromHeader reproduces the same ordered list -/

def member (e : Bytes × Bytes) : Bytes := e.1 ++ 61 :: e.2

theorem lcAlnum_facts : ∀ c : UInt8, IsLcAlnum c → c ≠ 44 ∧ c ≠ 61 ∧ isSpace c = false := forall_byte _ (by decide +kernel)
theorem keyChar_facts : ∀ c : UInt8, IsKeyChar c → c ≠ 44 ∧ c ≠ 61 := forall_byte _ (by decide +kernel)
theorem valChar_facts : ∀ c : UInt8, IsValChar c → c ≠ 44 ∧ c ≠ 61 ∧ (c ≠ 32 → isSpace c = false) := forall_byte _ (by decide +kernel)

theorem validKey_shape (k : Bytes) (h : ValidKey k) :
    ∃ c t, k = c :: t ∧ isSpace c = false ∧ (∀ x ∈ k, x ≠ 44 ∧ x ≠ 61) := by
  rcases h with ⟨c, t, rfl, hc, hall, _⟩ | ⟨c, t, c', t', rfl, hc, hall, _, hc', hall', _⟩
  · refine ⟨c, t, rfl, (lcAlnum_facts c hc).2.2, ?_⟩
    intro x hx
    simp only [List.mem_cons] at hx
    rcases hx with rfl | hx
    · exact ⟨(lcAlnum_facts _ hc).1, (lcAlnum_facts _ hc).2.1⟩
    · exact keyChar_facts x (hall x hx)
  · refine ⟨c, t ++ 64 :: c' :: t', by simp, (lcAlnum_facts c hc).2.2, ?_⟩
    intro x hx
    simp only [List.cons_append, List.mem_cons, List.mem_append] at hx
    rcases hx with rfl | hx | rfl | rfl | hx
    · exact ⟨(lcAlnum_facts _ hc).1, (lcAlnum_facts _ hc).2.1⟩
    · exact keyChar_facts x (hall x hx)
    · decide
    · exact ⟨(lcAlnum_facts _ hc').1, (lcAlnum_facts _ hc').2.1⟩
    · exact keyChar_facts x (hall' x hx)

theorem validValue_shape (v : Bytes) (h : ValidValue v) :
    ∃ t d, v = t ++ [d] ∧ isSpace d = false ∧ (∀ x ∈ v, x ≠ 44 ∧ x ≠ 61) := by
  obtain ⟨t, d, rfl, hall, _, hd, hne⟩ := h
  refine ⟨t, d, rfl, (valChar_facts d hd).2.2 hne, ?_⟩
  intro x hx
  simp only [List.mem_append, List.mem_singleton] at hx
  rcases hx with hx | rfl
  · exact ⟨(valChar_facts x (hall x hx)).1, (valChar_facts x (hall x hx)).2.1⟩
  · exact ⟨(valChar_facts _ hd).1, (valChar_facts _ hd).2.1⟩

theorem member_facts (e : Bytes × Bytes) (h : ValidEntry e) :
    (44 : UInt8) ∉ member e ∧ trim (member e) = member e ∧ (member e).isEmpty = false ∧ parseValid (member e) = some e := by
  obtain ⟨c, t, hk, hc, hkall⟩ := validKey_shape e.1 h.1
  obtain ⟨t', d, hv, hd, hvall⟩ := validValue_shape e.2 h.2
  refine ⟨?_, ?_, ?_, ?_⟩
  · intro hm
    unfold member at hm
    simp only [List.mem_append, List.mem_cons] at hm
    rcases hm with hm | hm | hm
    · exact (hkall 44 hm).1 rfl
    · exact absurd hm (by decide)
    · exact (hvall 44 hm).1 rfl
  · apply trim_id_of_ends (member e) c d (t ++ 61 :: t')
    · unfold member; rw [hk, hv]; simp
    · exact hc
    · exact hd
  · unfold member; rw [hk]; rfl
  · unfold parseValid splitKv member
    rw [takeTok_append_sep e.1 e.2 (fun hm => (hkall 61 hm).2 rfl)]
    simp only [(isValidKey_iff _).2 h.1, (isValidValue_iff _).2 h.2, Bool.and_self, if_true]

theorem toHeader_nil : toHeader [] = [] := rfl
theorem toHeader_single (e : Bytes × Bytes) : toHeader [e] = member e := by
  obtain ⟨g1, g2, g3⟩ := gen_consts
  obtain ⟨k, v⟩ := e
  simp [toHeader, member, g2]
theorem toHeader_cons2 (e e' : Bytes × Bytes) (t : Entries) : toHeader (e :: e' :: t) = member e ++ 44 :: toHeader (e' :: t) := by
  obtain ⟨g1, g2, g3⟩ := gen_consts
  obtain ⟨k, v⟩ := e
  simp [toHeader, member, g2, g3]

theorem members_toHeader : ∀ (es : Entries), (∀ e ∈ es, ValidEntry e) → ∀ fuel, (toHeader es).length ≤ fuel →
    kvMembers 44 fuel (toHeader es) = es.map member ∧ numTokens 44 fuel (toHeader es) = es.length
  | [], _, fuel, _ => by cases fuel <;> simp [toHeader_nil, kvMembers, numTokens]
  | [e], h, fuel, hf => by
    obtain ⟨m1, m2, m3, _⟩ := member_facts e (h e (by simp))
    rw [toHeader_single] at hf ⊢
    cases hm : member e with
    | nil => simp [hm] at m3
    | cons c t =>
      cases fuel with
      | zero => simp [hm] at hf
      | succ fuel =>
        have htk : takeTok 44 (c :: t) = (c :: t, none) := by rw [← hm]; exact takeTok_no_sep _ m1
        simp only [kvMembers, numTokens, htk]
        rw [← hm, m2]
        simp [m3]
  | e :: e' :: t, h, fuel, hf => by
    obtain ⟨m1, m2, m3, _⟩ := member_facts e (h e (by simp))
    rw [toHeader_cons2] at hf ⊢
    cases hm : member e with
    | nil => simp [hm] at m3
    | cons c r =>
      cases fuel with
      | zero => simp [hm] at hf
      | succ fuel =>
        have htk : takeTok 44 (c :: r ++ 44 :: toHeader (e' :: t)) = (c :: r, some (toHeader (e' :: t))) := by
          rw [← hm]; exact takeTok_append_sep _ _ m1
        have hrec := members_toHeader (e' :: t) (fun x hx => h x (by simp [hx])) fuel (by
          rw [hm] at hf; simp at hf ⊢; omega)
        simp only [List.cons_append] at htk
        simp only [List.cons_append, kvMembers, numTokens, htk]
        rw [← hm, m2]
        simp only [m3, Bool.false_eq_true, if_false, hrec.1, hrec.2]
        simp; omega

theorem mapM_parseValid_members : ∀ (es : Entries), (∀ e ∈ es, ValidEntry e) → (es.map member).mapM parseValid = some es
  | [], _ => rfl
  | e :: t, h => by
    simp only [List.map_cons, List.mapM_cons, (member_facts e (h e (by simp))).2.2.2,
      mapM_parseValid_members t (fun x hx => h x (by simp [hx]))]
    rfl

/-- **Round trip**: for every well-formed trace state (grammar-valid members, at most 32),
    `FromHeader (ToHeader es)` reproduces the same ordered list. -/
theorem fromHeader_toHeader (es : Entries) (h : WF es) : fromHeader (toHeader es) = es := by
  obtain ⟨h1, h2⟩ := members_toHeader es h.1 (toHeader es).length (Nat.le_refl _)
  rw [fromHeader_spec]
  have hn : numTok 44 (toHeader es) = es.length := h2
  have hm : members 44 (toHeader es) = es.map member := h1
  have : ¬ es.length > 32 := by have := h.2; omega
  rw [hn, hm, mapM_parseValid_members es h.1]
  simp [this]

/-! ## Non-vacuity -/

def ex2 : Entries := [([97], [49]), ([98, 64, 99], [32, 50])]   -- a=1 , b@c=" 2"
theorem ex2_wf : WF ex2 := by
  refine ⟨?_, by decide⟩
  intro e he
  simp only [ex2, List.mem_cons, List.not_mem_nil, or_false] at he
  rcases he with rfl | rfl
  · exact ⟨Or.inl ⟨97, [], rfl, by decide, by simp, by simp⟩, ⟨[], 49, rfl, by simp, by simp, by decide, by decide⟩⟩
  · exact ⟨Or.inr ⟨98, [], 99, [], rfl, by decide, by simp, by simp, by decide, by simp, by simp⟩,
      ⟨[32], 50, rfl, by simp; decide, by simp, by decide, by decide⟩⟩
example : set ex2 [97] [57] = [([97], [57]), ([98, 64, 99], [32, 50])] := by
  rw [set_spec ex2 [97] [57] ((isValidKey_iff _).2 (Or.inl ⟨97, [], rfl, by decide, by simp, by simp⟩))
    ((isValidValue_iff _).2 ⟨[], 57, rfl, by simp, by simp, by decide, by decide⟩)]
  decide
example : fromHeader (toHeader ex2) = ex2 := fromHeader_toHeader ex2 ex2_wf
example : toHeader ex2 = [97, 61, 49, 44, 98, 64, 99, 61, 32, 50] := by decide

/-! ## The tokenizer's `ignore_empty_members` option -/

theorem kvMembers_eq_filter (sep : UInt8) : ∀ (fuel : Nat) (s : Bytes),
    kvMembers sep fuel s = (kvMembersAll sep fuel s).filter (fun m => !m.isEmpty)
  | 0, _ => by simp [kvMembers, kvMembersAll]
  | _ + 1, [] => by simp [kvMembers, kvMembersAll]
  | fuel + 1, c :: t => by
    unfold kvMembers kvMembersAll
    rcases h : takeTok sep (c :: t) with ⟨tok, _ | rest⟩
    · by_cases he : (trim tok).isEmpty <;> simp [he]
    · by_cases he : (trim tok).isEmpty <;> simp [he, kvMembers_eq_filter sep fuel rest]

/-- with the default option the tokenizer delivers exactly the non-empty members of the option-free enumeration, in order:
    empty members never become entries of a TraceState -/
theorem members_eq_filter (sep : UInt8) (s : Bytes) :
    members sep s = (membersAll sep s).filter (fun m => !m.isEmpty) :=
  kvMembers_eq_filter sep s.length s

end Otel.C14
