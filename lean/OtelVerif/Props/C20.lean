import OtelVerif.Model.Nostd
/-! # C20 — nostd vocabulary types behave like the std types they stand in for

Property theorems about `Model/Nostd.lean`.  The std behaviour each clause names is written here as a
declarative spec (lexicographic order on unsigned bytes, least index, slice, ownership invariants, tagged sum)
and the model — which the harness ties to the nostd code *and* to the std types in lock-step — is proved to meet it.

* comparisons and ordering: `compare_eq_lexSign`, `compare_lt_iff_lex`, `compare_eq_zero_iff`, `compare_antisymm`,
  `compare_total`, `lex_trans`, `compare_trans`, `eq_iff`, `lt_iff_lex`, `gt_iff_lex`
* find/substr incl. the out-of-range failure: `find_spec`, `find_none_iff`, `substr_spec`, `substr_fails_iff`,
  `compare3_fails_iff`
* hashing consistent with equality: `hash_respects_eq`
* element access and subspans: `slice_spec`, `span_get_in_bounds`, `span_get_out_of_bounds`, `fixedSpan_terminates_iff`
* ownership transfer with exactly one destruction per managed object, for EVERY operation sequence:
  `sh_inv_run`, `sh_no_use_after_destroy`, `sh_never_destroyed_twice`, `sh_each_object_destroyed_exactly_once`,
  `sh_self_assign_keeps`; `un_inv_run`, `un_no_use_after_destroy`, `un_never_destroyed_twice`,
  `un_each_object_destroyed_exactly_once`, `un_unique_owner`
* alternative selection and visitation: `variant_get_holds`, `variant_get_some_iff`, `variant_visit_active`;
  callable reference: `function_ref_applies` -/
namespace Otel.C20
open Otel Otel.Nostd

/-! ## string_view: ordering -/

/-- strict lexicographic order on strings of unsigned bytes (what `std::string_view`'s `<` is) -/
inductive Lex : Bytes → Bytes → Prop
  | nil (b : UInt8) (bs : Bytes) : Lex [] (b :: bs)
  | head {a b : UInt8} (as bs : Bytes) : a < b → Lex (a :: as) (b :: bs)
  | tail (a : UInt8) {as bs : Bytes} : Lex as bs → Lex (a :: as) (a :: bs)

/-- the sign `std::string_view::compare` reports: three-way lexicographic comparison -/
def lexSign : Bytes → Bytes → Int
  | [], [] => 0
  | [], _ :: _ => -1
  | _ :: _, [] => 1
  | a :: as, b :: bs => if a < b then -1 else if b < a then 1 else lexSign as bs

theorem u8_eq_of_not_lt {a b : UInt8} (h1 : ¬ a < b) (h2 : ¬ b < a) : a = b := by
  apply UInt8.toNat_inj.mp
  rw [UInt8.lt_iff_toNat_lt] at h1 h2
  omega

theorem u8_lt_irrefl (a : UInt8) : ¬ a < a := by rw [UInt8.lt_iff_toNat_lt]; omega
theorem u8_lt_asymm {a b : UInt8} (h : a < b) : ¬ b < a := by rw [UInt8.lt_iff_toNat_lt] at *; omega
theorem u8_lt_trans {a b c : UInt8} (h1 : a < b) (h2 : b < c) : a < c := by rw [UInt8.lt_iff_toNat_lt] at *; omega

theorem compare_nil_nil : Nostd.compare [] [] = 0 := by decide
theorem compare_nil_cons (b : UInt8) (bs : Bytes) : Nostd.compare [] (b :: bs) = -1 := by
  simp [Nostd.compare, memcmp]
theorem compare_cons_nil (a : UInt8) (as : Bytes) : Nostd.compare (a :: as) [] = 1 := by
  simp [Nostd.compare, memcmp]

theorem compare_cons_cons (a b : UInt8) (as bs : Bytes) :
    Nostd.compare (a :: as) (b :: bs) = if a < b then -1 else if b < a then 1 else Nostd.compare as bs := by
  unfold Nostd.compare
  have hmin : min (a :: as).length (b :: bs).length = min as.length bs.length + 1 := by
    simp only [List.length_cons]; omega
  simp only [hmin, List.take_succ_cons, memcmp]
  by_cases h1 : a < b
  · simp [h1]
  · by_cases h2 : b < a
    · simp [h1, h2]
    · simp only [h1, h2, if_false, List.length_cons]
      simp only [Nat.add_right_cancel_iff, Nat.add_lt_add_iff_right]

/-- **`compare` is the three-way lexicographic comparison on unsigned bytes** -/
theorem compare_eq_lexSign : ∀ a b : Bytes, Nostd.compare a b = lexSign a b
  | [], [] => compare_nil_nil
  | [], b :: bs => compare_nil_cons b bs
  | a :: as, [] => compare_cons_nil a as
  | a :: as, b :: bs => by rw [compare_cons_cons, lexSign, compare_eq_lexSign as bs]

theorem lexSign_range : ∀ a b : Bytes, lexSign a b = -1 ∨ lexSign a b = 0 ∨ lexSign a b = 1
  | [], [] => by simp [lexSign]
  | [], _ :: _ => by simp [lexSign]
  | _ :: _, [] => by simp [lexSign]
  | a :: as, b :: bs => by
    simp only [lexSign]
    split
    · simp
    · split
      · simp
      · exact lexSign_range as bs

theorem lexSign_neg_iff : ∀ a b : Bytes, lexSign a b = -1 ↔ Lex a b
  | [], [] => by simp [lexSign]; intro h; cases h
  | [], b :: bs => by simp [lexSign]; exact Lex.nil b bs
  | a :: as, [] => by simp [lexSign]; intro h; cases h
  | a :: as, b :: bs => by
    simp only [lexSign]
    by_cases h1 : a < b
    · simp [h1]; exact Lex.head as bs h1
    · by_cases h2 : b < a
      · simp [h1, h2]
        intro h
        cases h with
        | head _ _ h => exact h1 h
        | tail _ h => exact u8_lt_irrefl a h2
      · have e := u8_eq_of_not_lt h1 h2
        subst e
        simp only [h1, if_false]
        rw [lexSign_neg_iff as bs]
        constructor
        · exact Lex.tail a
        · intro h
          cases h with
          | head _ _ h => exact absurd h h1
          | tail _ h => exact h

theorem lexSign_zero_iff : ∀ a b : Bytes, lexSign a b = 0 ↔ a = b
  | [], [] => by simp [lexSign]
  | [], _ :: _ => by simp [lexSign]
  | _ :: _, [] => by simp [lexSign]
  | a :: as, b :: bs => by
    simp only [lexSign]
    by_cases h1 : a < b
    · simp [h1]; intro e; subst e; exact absurd h1 (u8_lt_irrefl a)
    · by_cases h2 : b < a
      · simp [h1, h2]; intro e; subst e; exact absurd h2 (u8_lt_irrefl a)
      · have e := u8_eq_of_not_lt h1 h2
        subst e
        simp [h1, lexSign_zero_iff as bs]

theorem lexSign_antisymm : ∀ a b : Bytes, lexSign b a = - lexSign a b
  | [], [] => by simp [lexSign]
  | [], _ :: _ => by simp [lexSign]
  | _ :: _, [] => by simp [lexSign]
  | a :: as, b :: bs => by
    simp only [lexSign]
    by_cases h1 : a < b
    · simp [h1, u8_lt_asymm h1]
    · by_cases h2 : b < a
      · simp [h1, h2]
      · simp [h1, h2, lexSign_antisymm as bs]

theorem compare_lt_iff_lex (a b : Bytes) : Nostd.compare a b < 0 ↔ Lex a b := by
  rw [compare_eq_lexSign, ← lexSign_neg_iff]
  rcases lexSign_range a b with h | h | h <;> simp [h]

/-- `compare(v) == 0` exactly for equal strings -/
theorem compare_eq_zero_iff (a b : Bytes) : Nostd.compare a b = 0 ↔ a = b := by
  rw [compare_eq_lexSign, lexSign_zero_iff]

/-- antisymmetry: swapping the arguments flips the sign -/
theorem compare_antisymm (a b : Bytes) : Nostd.compare b a = - Nostd.compare a b := by
  rw [compare_eq_lexSign, compare_eq_lexSign, lexSign_antisymm]

theorem compare_gt_iff_lex (a b : Bytes) : Nostd.compare a b > 0 ↔ Lex b a := by
  rw [← compare_lt_iff_lex b a, compare_antisymm a b]
  omega

/-- totality: any two strings are ordered one way, the other way, or equal -/
theorem compare_total (a b : Bytes) : Lex a b ∨ a = b ∨ Lex b a := by
  rw [← compare_lt_iff_lex, ← compare_eq_zero_iff a b, ← compare_gt_iff_lex]
  omega

theorem lex_trans : ∀ {a b c : Bytes}, Lex a b → Lex b c → Lex a c
  | [], _, c, h1, h2 => by
    cases h1 with
    | nil b bs =>
      cases h2 with
      | head _ cs _ => exact Lex.nil _ _
      | tail _ _ => exact Lex.nil _ _
  | a :: as, _, c, h1, h2 => by
    cases h1 with
    | head _ bs hab =>
      cases h2 with
      | head _ cs hbc => exact Lex.head _ _ (u8_lt_trans hab hbc)
      | tail _ _ => exact Lex.head _ _ hab
    | tail _ hab =>
      cases h2 with
      | head _ cs hbc => exact Lex.head _ _ hbc
      | tail _ hbc => exact Lex.tail _ (lex_trans hab hbc)

/-- transitivity of `<=` as `compare` reports it -/
theorem compare_trans (a b c : Bytes) (h1 : Nostd.compare a b ≤ 0) (h2 : Nostd.compare b c ≤ 0) : Nostd.compare a c ≤ 0 := by
  have t1 := compare_total a b
  have t2 := compare_total b c
  have g1 : ¬ Lex b a := fun h => by have := (compare_gt_iff_lex a b).mpr h; omega
  have g2 : ¬ Lex c b := fun h => by have := (compare_gt_iff_lex b c).mpr h; omega
  rcases t1 with t1 | t1 | t1
  · rcases t2 with t2 | t2 | t2
    · have := (compare_lt_iff_lex a c).mpr (lex_trans t1 t2); omega
    · subst t2; omega
    · exact absurd t2 g2
  · subst t1; exact h2
  · exact absurd t1 g1

theorem eq_iff (a b : Bytes) : Nostd.eq a b = true ↔ a = b := by
  unfold Nostd.eq
  constructor
  · intro h; simp at h; exact h.2
  · intro h; subst h; simp

theorem lt_iff_lex (a b : Bytes) : lt a b = true ↔ Lex a b := by
  unfold lt; rw [decide_eq_true_iff]; exact compare_lt_iff_lex a b

theorem gt_iff_lex (a b : Bytes) : gt a b = true ↔ Lex b a := by
  unfold gt; rw [decide_eq_true_iff]; exact compare_gt_iff_lex a b

example : Nostd.compare [0x80] [0x7f] = 1 := by decide      -- bytes Nostd.compare unsigned
example : Nostd.compare [97, 0] [97] = 1 := by decide        -- an embedded NUL counts
example : Lex [97] [97, 0] := Lex.tail 97 (Lex.nil 0 [])

/-! ## string_view: find, substr, hash -/

theorem findFirst_some_iff (ch : UInt8) : ∀ (l : Bytes) (i : Nat),
    findFirst ch l = some i ↔ l[i]? = some ch ∧ ∀ j, j < i → l[j]? ≠ some ch
  | [], i => by simp [findFirst]
  | c :: t, i => by
    simp only [findFirst]
    by_cases h : c = ch
    · subst h
      simp only [if_true]
      constructor
      · intro e; simp at e; subst e; simp
      · intro ⟨_, h2⟩
        cases i with
        | zero => rfl
        | succ n => exact absurd (by simp) (h2 0 (Nat.succ_pos n))
    · simp only [h, if_false]
      cases i with
      | zero =>
        simp
        intro e
        exact absurd e h
      | succ n =>
        simp only [Option.map_eq_some_iff, Nat.add_right_cancel_iff, exists_eq_right, List.getElem?_cons_succ]
        rw [findFirst_some_iff ch t n]
        constructor
        · intro ⟨h1, h2⟩
          refine ⟨h1, fun j hj => ?_⟩
          cases j with
          | zero => simp; exact h
          | succ m => simp; exact h2 m (by omega)
        · intro ⟨h1, h2⟩
          exact ⟨h1, fun j hj => by have := h2 (j + 1) (by omega); simpa using this⟩

theorem findFirst_none_iff (ch : UInt8) : ∀ (l : Bytes), findFirst ch l = none ↔ ∀ j : Nat, l[j]? ≠ some ch
  | [] => by simp [findFirst]
  | c :: t => by
    simp only [findFirst]
    by_cases h : c = ch
    · subst h
      simp only [if_true]
      constructor
      · intro e; cases e
      · intro h2; exact absurd (by simp) (h2 0)
    · simp only [h, if_false, Option.map_eq_none_iff]
      rw [findFirst_none_iff ch t]
      constructor
      · intro h2 j
        cases j with
        | zero => simp; exact h
        | succ m => simp; exact h2 m
      · intro h2 j
        have := h2 (j + 1)
        simpa using this

/-- **`find(ch, pos)` returns the least index `>= pos` holding `ch`** -/
theorem find_spec (a : Bytes) (ch : UInt8) (pos i : Nat) :
    find a ch pos = some i ↔ pos ≤ i ∧ a[i]? = some ch ∧ ∀ j, pos ≤ j → j < i → a[j]? ≠ some ch := by
  unfold find
  by_cases hp : pos < a.length
  · simp only [hp, if_true, Option.map_eq_some_iff]
    constructor
    · rintro ⟨k, hk, rfl⟩
      rw [findFirst_some_iff] at hk
      refine ⟨by omega, ?_, ?_⟩
      · have := hk.1; rw [List.getElem?_drop] at this; rw [Nat.add_comm]; exact this
      · intro j h1 h2
        have := hk.2 (j - pos) (by omega)
        rw [List.getElem?_drop] at this
        have e : pos + (j - pos) = j := by omega
        rw [e] at this; exact this
    · rintro ⟨h1, h2, h3⟩
      refine ⟨i - pos, ?_, by omega⟩
      rw [findFirst_some_iff]
      refine ⟨?_, ?_⟩
      · rw [List.getElem?_drop]
        have e : pos + (i - pos) = i := by omega
        rw [e]; exact h2
      · intro j hj
        rw [List.getElem?_drop]
        exact h3 (pos + j) (by omega) (by omega)
  · simp only [hp, if_false]
    constructor
    · intro h; cases h
    · rintro ⟨h1, h2, _⟩
      have : i < a.length := by
        rcases Nat.lt_or_ge i a.length with h | h
        · exact h
        · rw [List.getElem?_eq_none h] at h2; cases h2
      omega

/-- … and `npos` exactly when there is none -/
theorem find_none_iff (a : Bytes) (ch : UInt8) (pos : Nat) :
    find a ch pos = none ↔ ∀ j, pos ≤ j → a[j]? ≠ some ch := by
  unfold find
  by_cases hp : pos < a.length
  · simp only [hp, if_true, Option.map_eq_none_iff]
    rw [findFirst_none_iff]
    constructor
    · intro h j hj
      have := h (j - pos)
      rw [List.getElem?_drop] at this
      have e : pos + (j - pos) = j := by omega
      rw [e] at this; exact this
    · intro h j
      rw [List.getElem?_drop]
      exact h (pos + j) (by omega)
  · simp only [hp, if_false, true_iff]
    intro j hj
    rw [List.getElem?_eq_none (by omega)]
    simp

/-- `substr(pos, n)` fails (throws `std::out_of_range`) exactly when `pos > size()` -/
theorem substr_fails_iff (a : Bytes) (pos n : Nat) : substr a pos n = none ↔ pos > a.length := by
  unfold substr; split <;> simp_all

/-- otherwise it is the slice `[pos, pos + min(n, size() - pos))` -/
theorem substr_spec (a : Bytes) (pos n : Nat) (r : Bytes) (h : substr a pos n = some r) :
    r.length = min n (a.length - pos) ∧ ∀ i, i < r.length → r[i]? = a[pos + i]? := by
  unfold substr at h
  split at h
  · cases h
  · simp at h
    subst h
    refine ⟨by simp, ?_⟩
    intro i hi
    simp at hi
    rw [List.getElem?_take_of_lt (by omega), List.getElem?_drop]

theorem compare3_fails_iff (a b : Bytes) (pos n : Nat) : compare3 a pos n b = none ↔ pos > a.length := by
  unfold compare3; rw [Option.map_eq_none_iff, substr_fails_iff]

example : substr [1, 2, 3] 3 5 = some [] := by decide
example : substr [1, 2, 3] 4 0 = none := by decide
example : find [1, 2, 3, 2] 2 2 = some 3 := by decide

/-- whatever function of the bytes the hash is, equal strings hash equal -/
theorem hash_respects_eq {β : Type} (h : Bytes → β) (a b : Bytes) (e : Nostd.eq a b = true) : h a = h b := by
  rw [(eq_iff a b).mp e]

/-! ## span -/

theorem slice_spec (base : Bytes) (off cnt : Nat) (s : Bytes) (h : slice base off cnt = some s) :
    off + cnt ≤ base.length ∧ s.length = cnt ∧ ∀ i, i < cnt → s[i]? = base[off + i]? := by
  unfold slice at h
  split at h
  · rename_i hle
    simp at h
    subst h
    refine ⟨hle, by simp; omega, ?_⟩
    intro i hi
    rw [List.getElem?_take_of_lt hi, List.getElem?_drop]
  · cases h

/-- element access inside the span is the element of the underlying buffer -/
theorem span_get_in_bounds (base : Bytes) (off cnt i : Nat) (s : Bytes) (h : slice base off cnt = some s) (hi : i < cnt) :
    spanGet s i = base[off + i]? ∧ (spanGet s i).isSome = true := by
  obtain ⟨h1, h2, h3⟩ := slice_spec base off cnt s h
  unfold spanGet
  refine ⟨h3 i hi, ?_⟩
  rw [h3 i hi, List.getElem?_eq_getElem (by omega)]
  rfl

theorem span_get_out_of_bounds (base : Bytes) (off cnt i : Nat) (s : Bytes) (h : slice base off cnt = some s) (hi : cnt ≤ i) :
    spanGet s i = none := by
  obtain ⟨_, h2, _⟩ := slice_spec base off cnt s h
  unfold spanGet
  exact List.getElem?_eq_none (by omega)

/-- a static extent that differs from the count terminates; otherwise the span is the slice -/
theorem fixedSpan_terminates_iff (base : Bytes) (n off cnt : Nat) (s : Bytes) (h : slice base off cnt = some s) :
    (fixedSpan base n off cnt = some .terminate ↔ cnt ≠ n) ∧ (cnt = n → fixedSpan base n off cnt = some (.elems s)) := by
  unfold fixedSpan
  rw [h]
  by_cases e : cnt = n <;> simp [e]

example : slice [1, 2, 3, 4] 1 2 = some [2, 3] := by decide

/-! ## variant, function_ref -/

/-- `get<I>` succeeds exactly for the active alternative, and then yields the stored value -/
theorem variant_get_some_iff (v : Var) (i : Nat) (x : Var) : v.get i = some x ↔ v.index = i ∧ x = v := by
  unfold Var.get
  split <;> simp_all [eq_comm]

theorem variant_get_holds (v : Var) (i : Nat) : (v.get i).isSome = v.holds i ∧ (v.holds i = true ↔ v.index = i) := by
  unfold Var.get Var.holds
  by_cases h : v.index = i <;> simp [h]

/-- `visit` calls the visitor with the payload of the active alternative -/
theorem variant_visit_active {β : Type} (fm : β) (fb : Bool → β) (fi : Int → β) (fs : Bytes → β) :
    Var.visit fm fb fi fs .mono = fm ∧ (∀ x, Var.visit fm fb fi fs (.b x) = fb x) ∧
    (∀ x, Var.visit fm fb fi fs (.i x) = fi x) ∧ (∀ x, Var.visit fm fb fi fs (.s x) = fs x) :=
  ⟨rfl, fun _ => rfl, fun _ => rfl, fun _ => rfl⟩

theorem function_ref_applies {α β : Type} (f : α → β) (x : α) : callRef f x = f x := rfl

/-! ## shared_ptr: ownership invariants for every operation sequence -/

/-- some handle among the `k` slots owns `o` -/
def RefdF (k : Nat) (slot : Nat → Slot) (o : Nat) : Prop := ∃ h, h < k ∧ slot h = some (some o)

/-- the invariant: objects not yet created have never been destroyed; handles only refer to created objects;
    **an object is live (never destroyed) exactly while some handle owns it, and was destroyed exactly once otherwise** -/
structure InvF (k : Nat) (slot : Nat → Slot) (next : Nat) (cnt : Nat → Nat) : Prop where
  fresh : ∀ o, next ≤ o → cnt o = 0
  bound : ∀ o, RefdF k slot o → o < next
  live : ∀ o, o < next → (cnt o = 0 ∧ RefdF k slot o) ∨ (cnt o = 1 ∧ ¬ RefdF k slot o)

def ShInv (s : Sh) : Prop := InvF s.k s.slot s.next s.cnt

theorem refd_iff (s : Sh) (o : Nat) : s.refd o = true ↔ RefdF s.k s.slot o := by
  unfold Sh.refd RefdF
  simp [List.any_eq_true, List.mem_range]

theorem invF_congr {k : Nat} {slot slot' : Nat → Slot} {next : Nat} {cnt : Nat → Nat} (hi : InvF k slot next cnt)
    (hr : ∀ o, RefdF k slot' o ↔ RefdF k slot o) : InvF k slot' next cnt :=
  ⟨hi.fresh, fun o h => hi.bound o ((hr o).mp h), fun o h => by
    rcases hi.live o h with ⟨a, b⟩ | ⟨a, b⟩
    · exact Or.inl ⟨a, (hr o).mpr b⟩
    · exact Or.inr ⟨a, fun c => b ((hr o).mp c)⟩⟩

theorem refdF_upd_notarget {k : Nat} {slot : Nat → Slot} {h : Nat} {v : Slot} (hv : ∀ o, v ≠ some (some o)) (o : Nat) :
    RefdF k (upd slot h v) o ↔ ∃ h', h' < k ∧ h' ≠ h ∧ slot h' = some (some o) := by
  constructor
  · rintro ⟨h', hk, hs⟩
    by_cases e : h' = h
    · simp [upd, e] at hs; exact absurd hs (hv o)
    · simp [upd, e] at hs; exact ⟨h', hk, e, hs⟩
  · rintro ⟨h', hk, e, hs⟩
    exact ⟨h', hk, by simp [upd, e, hs]⟩

theorem refdF_other {k : Nat} {slot : Nat → Slot} {h : Nat} (hs : ∀ o, slot h ≠ some (some o)) (o : Nat) :
    (∃ h', h' < k ∧ h' ≠ h ∧ slot h' = some (some o)) ↔ RefdF k slot o := by
  constructor
  · rintro ⟨h', hk, _, h2⟩; exact ⟨h', hk, h2⟩
  · rintro ⟨h', hk, h2⟩; exact ⟨h', hk, fun e => hs o (e ▸ h2), h2⟩

/-- a slot without target changes to another value without target: nobody's ownership changes -/
theorem refdF_retag {k : Nat} {slot : Nat → Slot} {h : Nat} {v : Slot} (hs : ∀ o, slot h ≠ some (some o))
    (hv : ∀ o, v ≠ some (some o)) (o : Nat) : RefdF k (upd slot h v) o ↔ RefdF k slot o := by
  rw [refdF_upd_notarget hv, refdF_other hs]

/-- copy: a slot without target becomes a second owner of what `g` owns -/
theorem refdF_copy {k : Nat} {slot : Nat → Slot} {h g : Nat} (hs : ∀ o, slot h ≠ some (some o)) (hg : g < k) (o : Nat) :
    RefdF k (upd slot h (slot g)) o ↔ RefdF k slot o := by
  constructor
  · rintro ⟨h', hk, h2⟩
    by_cases e : h' = h
    · simp [upd, e] at h2; exact ⟨g, hg, h2⟩
    · simp [upd, e] at h2; exact ⟨h', hk, h2⟩
  · rintro ⟨h', hk, h2⟩
    have e : h' ≠ h := fun e => hs o (e ▸ h2)
    exact ⟨h', hk, by simp [upd, e, h2]⟩

/-- move: a slot without target takes over what `g` owns, `g` becomes an empty handle -/
theorem refdF_move {k : Nat} {slot : Nat → Slot} {h g : Nat} (hs : ∀ o, slot h ≠ some (some o)) (hh : h < k) (hg : g < k)
    (hne : h ≠ g) (o : Nat) : RefdF k (upd (upd slot h (slot g)) g (some none)) o ↔ RefdF k slot o := by
  constructor
  · rintro ⟨h', hk, h2⟩
    by_cases e : h' = g
    · simp [upd, e] at h2
    · by_cases e2 : h' = h
      · subst e2
        simp [upd, e] at h2
        exact ⟨g, hg, h2⟩
      · simp [upd, e, e2] at h2; exact ⟨h', hk, h2⟩
  · rintro ⟨h', hk, h2⟩
    by_cases e : h' = g
    · subst e
      exact ⟨h, hh, by simp [upd, hne, h2]⟩
    · have e2 : h' ≠ h := fun e => hs o (e ▸ h2)
      exact ⟨h', hk, by simp [upd, e, e2, h2]⟩

theorem refdF_swap {k : Nat} {slot : Nat → Slot} {h g : Nat} (hh : h < k) (hg : g < k) (o : Nat) :
    RefdF k (upd (upd slot h (slot g)) g (slot h)) o ↔ RefdF k slot o := by
  constructor
  · rintro ⟨h', hk, h2⟩
    by_cases e : h' = g
    · simp [upd, e] at h2; exact ⟨h, hh, h2⟩
    · by_cases e2 : h' = h
      · subst e2
        simp [upd, e] at h2
        exact ⟨g, hg, h2⟩
      · simp [upd, e, e2] at h2; exact ⟨h', hk, h2⟩
  · rintro ⟨h', hk, h2⟩
    by_cases e : h' = h
    · subst e
      exact ⟨g, hg, by simp [upd, h2]⟩
    · by_cases e2 : h' = g
      · subst e2
        refine ⟨h, hh, ?_⟩
        have : h ≠ h' := fun x => e x.symm
        simp [upd, this, h2]
      · exact ⟨h', hk, by simp [upd, e, e2, h2]⟩

theorem invF_alloc {k : Nat} {slot : Nat → Slot} {next : Nat} {cnt : Nat → Nat} {h : Nat} (hi : InvF k slot next cnt)
    (hh : h < k) (hs : ∀ o, slot h ≠ some (some o)) : InvF k (upd slot h (some (some next))) (next + 1) cnt := by
  have key : ∀ o, RefdF k (upd slot h (some (some next))) o ↔ (o = next ∨ RefdF k slot o) := by
    intro o
    constructor
    · rintro ⟨h', hk, h2⟩
      by_cases e : h' = h
      · simp [upd, e] at h2; exact Or.inl h2.symm
      · simp [upd, e] at h2; exact Or.inr ⟨h', hk, h2⟩
    · rintro (e | ⟨h', hk, h2⟩)
      · exact ⟨h, hh, by simp [upd, e]⟩
      · have e : h' ≠ h := fun e => hs o (e ▸ h2)
        exact ⟨h', hk, by simp [upd, e, h2]⟩
  refine ⟨fun o ho => hi.fresh o (by omega), ?_, ?_⟩
  · intro o ho
    rcases (key o).mp ho with e | e
    · omega
    · have := hi.bound o e; omega
  · intro o ho
    by_cases e : o = next
    · exact Or.inl ⟨hi.fresh o (by omega), (key o).mpr (Or.inl e)⟩
    · rcases hi.live o (by omega) with ⟨a, b⟩ | ⟨a, b⟩
      · exact Or.inl ⟨a, (key o).mpr (Or.inr b)⟩
      · exact Or.inr ⟨a, fun c => by rcases (key o).mp c with c | c; exact e c; exact b c⟩

theorem clear_facts (s : Sh) (h : Nat) (v : Slot) :
    (s.clear h v).k = s.k ∧ (s.clear h v).next = s.next ∧ (s.clear h v).slot = upd s.slot h v := by
  unfold Sh.clear
  cases s.slot h with
  | none => exact ⟨rfl, rfl, rfl⟩
  | some t =>
    cases t with
    | none => exact ⟨rfl, rfl, rfl⟩
    | some o => dsimp only; split <;> exact ⟨rfl, rfl, rfl⟩

/-- a handle gives up its reference: the invariant survives (the object dies iff that was the last owner) -/
theorem inv_clear {s : Sh} (hi : ShInv s) {h : Nat} (hh : h < s.k) {v : Slot} (hv : ∀ o, v ≠ some (some o)) :
    ShInv (s.clear h v) := by
  unfold ShInv at *
  unfold Sh.clear
  cases hs : s.slot h with
  | none =>
    dsimp only
    exact invF_congr hi (refdF_retag (by simp [hs]) hv)
  | some t =>
    cases t with
    | none =>
      dsimp only
      exact invF_congr hi (refdF_retag (by simp [hs]) hv)
    | some o =>
      dsimp only
      have hro : RefdF s.k s.slot o := ⟨h, hh, hs⟩
      have ho : o < s.next := hi.bound o hro
      have hc : s.cnt o = 0 := by
        rcases hi.live o ho with ⟨a, _⟩ | ⟨_, b⟩
        · exact a
        · exact absurd hro b
      have sub : ∀ o', RefdF s.k (upd s.slot h v) o' → RefdF s.k s.slot o' := by
        intro o' hr
        rw [refdF_upd_notarget hv] at hr
        obtain ⟨h', hk, _, h2⟩ := hr
        exact ⟨h', hk, h2⟩
      have key : ∀ o', o' ≠ o → (RefdF s.k (upd s.slot h v) o' ↔ RefdF s.k s.slot o') := by
        intro o' hne
        refine ⟨sub o', ?_⟩
        rintro ⟨h', hk, h2⟩
        rw [refdF_upd_notarget hv]
        refine ⟨h', hk, fun e => ?_, h2⟩
        subst e
        rw [hs] at h2
        simp at h2
        exact hne h2.symm
      split
      · rename_i hr
        rw [refd_iff] at hr
        refine ⟨hi.fresh, fun o' h' => hi.bound o' (sub o' h'), fun o' ho' => ?_⟩
        by_cases e : o' = o
        · subst e; exact Or.inl ⟨hc, hr⟩
        · rcases hi.live o' ho' with ⟨a, b⟩ | ⟨a, b⟩
          · exact Or.inl ⟨a, (key o' e).mpr b⟩
          · exact Or.inr ⟨a, fun c => b ((key o' e).mp c)⟩
      · rename_i hr
        rw [refd_iff] at hr
        refine ⟨?_, fun o' h' => hi.bound o' (sub o' h'), fun o' ho' => ?_⟩
        · intro o' ho'
          have ho'' : s.next ≤ o' := ho'
          have : o' ≠ o := by omega
          simp only [upd, this, if_false]
          exact hi.fresh o' ho''
        · by_cases e : o' = o
          · subst e
            exact Or.inr ⟨by simp [upd, hc], hr⟩
          · simp only [upd, e, if_false]
            rcases hi.live o' ho' with ⟨a, b⟩ | ⟨a, b⟩
            · exact Or.inl ⟨a, (key o' e).mpr b⟩
            · exact Or.inr ⟨a, fun c => b ((key o' e).mp c)⟩

theorem vacant_iff (s : Sh) (h : Nat) : s.vacant h = true ↔ h < s.k ∧ s.slot h = none := by
  unfold Sh.vacant; simp

theorem alive_iff (s : Sh) (h : Nat) : s.alive h = true ↔ h < s.k ∧ s.slot h ≠ none := by
  unfold Sh.alive; simp

theorem none_notarget {x : Slot} (h : x = none) : ∀ o, x ≠ some (some o) := by subst h; simp

theorem inv_init (k : Nat) : ShInv (Sh.init k) :=
  ⟨fun _ _ => rfl, fun o ⟨_, _, h⟩ => by simp [Sh.init] at h, fun o h => by simp [Sh.init] at h⟩

/-- every operation preserves the invariant -/
theorem sh_inv_step {s s' : Sh} {op : ShOp} {ob : PtrObs} (hi : ShInv s) (h : s.step op = some (s', ob)) : ShInv s' := by
  cases op with
  | ctor h0 =>
    simp only [Sh.step] at h
    split at h
    · rename_i hv
      obtain ⟨hk, hs⟩ := (vacant_iff s h0).mp hv
      simp at h; obtain ⟨h1, _⟩ := h; subst h1
      exact invF_congr hi (refdF_retag (none_notarget hs) (by simp))
    · simp at h
  | ctorp h0 =>
    simp only [Sh.step] at h
    split at h
    · rename_i hv
      obtain ⟨hk, hs⟩ := (vacant_iff s h0).mp hv
      simp at h; obtain ⟨h1, _⟩ := h; subst h1
      exact invF_alloc hi hk (none_notarget hs)
    · simp at h
  | ctorc h0 g =>
    simp only [Sh.step] at h
    split at h
    · rename_i hv
      obtain ⟨hk, hs⟩ := (vacant_iff s h0).mp hv.1
      obtain ⟨hg, _⟩ := (alive_iff s g).mp hv.2
      simp at h; obtain ⟨h1, _⟩ := h; subst h1
      exact invF_congr hi (refdF_copy (none_notarget hs) hg)
    · simp at h
  | ctorm h0 g =>
    simp only [Sh.step] at h
    split at h
    · rename_i hv
      obtain ⟨hk, hs⟩ := (vacant_iff s h0).mp hv.1
      obtain ⟨hg, hgs⟩ := (alive_iff s g).mp hv.2
      simp at h; obtain ⟨h1, _⟩ := h; subst h1
      have hne : h0 ≠ g := fun e => hgs (e ▸ hs)
      exact invF_congr hi (refdF_move (none_notarget hs) hk hg hne)
    · simp at h
  | dtor h0 =>
    simp only [Sh.step] at h
    split at h
    · rename_i hv
      obtain ⟨hk, _⟩ := (alive_iff s h0).mp hv
      simp at h; obtain ⟨h1, _⟩ := h; subst h1
      exact inv_clear hi hk (by simp)
    · simp at h
  | asgc h0 g =>
    simp only [Sh.step] at h
    split at h
    · rename_i hv
      obtain ⟨hk, _⟩ := (alive_iff s h0).mp hv.1
      obtain ⟨hg, _⟩ := (alive_iff s g).mp hv.2
      split at h
      · simp at h; obtain ⟨h1, _⟩ := h; subst h1; exact hi
      · simp at h; obtain ⟨h1, _⟩ := h; subst h1
        have h1 := inv_clear hi hk (v := none) (by simp)
        obtain ⟨f1, f2, f3⟩ := clear_facts s h0 none
        unfold ShInv at h1 ⊢
        dsimp only
        rw [f1] at h1 ⊢
        refine invF_congr h1 (refdF_copy ?_ hg)
        rw [f3]; simp [upd]
    · simp at h
  | asgm h0 g =>
    simp only [Sh.step] at h
    split at h
    · rename_i hv
      obtain ⟨hk, _⟩ := (alive_iff s h0).mp hv.1
      obtain ⟨hg, _⟩ := (alive_iff s g).mp hv.2
      split at h
      · simp at h; obtain ⟨h1, _⟩ := h; subst h1; exact hi
      · rename_i hne
        simp at h; obtain ⟨h1, _⟩ := h; subst h1
        have h1 := inv_clear hi hk (v := none) (by simp)
        obtain ⟨f1, f2, f3⟩ := clear_facts s h0 none
        unfold ShInv at h1 ⊢
        dsimp only
        rw [f1] at h1 ⊢
        refine invF_congr h1 (refdF_move ?_ hk hg hne)
        rw [f3]; simp [upd]
    · simp at h
  | asgn h0 =>
    simp only [Sh.step] at h
    split at h
    · rename_i hv
      obtain ⟨hk, _⟩ := (alive_iff s h0).mp hv
      simp at h; obtain ⟨h1, _⟩ := h; subst h1
      exact inv_clear hi hk (by simp)
    · simp at h
  | asgp h0 =>
    simp only [Sh.step] at h
    split at h
    · rename_i hv
      obtain ⟨hk, _⟩ := (alive_iff s h0).mp hv
      simp at h; obtain ⟨h1, _⟩ := h; subst h1
      have h1 := inv_clear hi hk (v := none) (by simp)
      obtain ⟨f1, f2, f3⟩ := clear_facts s h0 none
      unfold ShInv at h1 ⊢
      unfold Sh.alloc
      dsimp only
      rw [f1] at h1 ⊢
      refine invF_alloc h1 hk ?_
      rw [f3]; simp [upd]
    · simp at h
  | swap h0 g =>
    simp only [Sh.step] at h
    split at h
    · rename_i hv
      obtain ⟨hk, _⟩ := (alive_iff s h0).mp hv.1
      obtain ⟨hg, _⟩ := (alive_iff s g).mp hv.2
      simp at h; obtain ⟨h1, _⟩ := h; subst h1
      exact invF_congr hi (refdF_swap hk hg)
    · simp at h
  | get h0 =>
    simp only [Sh.step] at h
    split at h
    · simp at h; obtain ⟨h1, _⟩ := h; subst h1; exact hi
    · simp at h
  | eq h0 g =>
    simp only [Sh.step] at h
    split at h
    · simp at h; obtain ⟨h1, _⟩ := h; subst h1; exact hi
    · simp at h

/-- **the invariant holds after every operation sequence** -/
theorem sh_inv_run : ∀ (ops : List ShOp) (s s' : Sh), ShInv s → s.run ops = some s' → ShInv s'
  | [], s, s', hi, h => by simp [Sh.run] at h; subst h; exact hi
  | o :: os, s, s', hi, h => by
    simp only [Sh.run] at h
    cases hs : s.step o with
    | none => simp [hs] at h
    | some x =>
      obtain ⟨s1, ob⟩ := x
      simp only [hs] at h
      exact sh_inv_run os s1 s' (sh_inv_step hi hs) h

/-- **no use after destroy**: whatever the program did, every handle that owns something owns a created object whose
    destructor has not run -/
theorem sh_no_use_after_destroy (k : Nat) (ops : List ShOp) (s : Sh) (h : (Sh.init k).run ops = some s)
    (h0 o : Nat) (hk : h0 < s.k) (hs : s.slot h0 = some (some o)) : o < s.next ∧ s.cnt o = 0 := by
  have hi := sh_inv_run ops _ s (inv_init k) h
  have hr : RefdF s.k s.slot o := ⟨h0, hk, hs⟩
  have ho := hi.bound o hr
  refine ⟨ho, ?_⟩
  rcases hi.live o ho with ⟨a, _⟩ | ⟨_, b⟩
  · exact a
  · exact absurd hr b

/-- **no object is ever destroyed twice** -/
theorem sh_never_destroyed_twice (k : Nat) (ops : List ShOp) (s : Sh) (h : (Sh.init k).run ops = some s) (o : Nat) :
    s.cnt o ≤ 1 := by
  have hi := sh_inv_run ops _ s (inv_init k) h
  rcases Nat.lt_or_ge o s.next with ho | ho
  · rcases hi.live o ho with ⟨a, _⟩ | ⟨a, _⟩ <;> omega
  · rw [hi.fresh o ho]; omega

theorem finishFrom_facts (s : Sh) (hi : ShInv s) : ∀ n, n ≤ s.k →
    ShInv (s.finishFrom n) ∧ (s.finishFrom n).k = s.k ∧ (s.finishFrom n).next = s.next ∧
    ∀ h, h < n → (s.finishFrom n).slot h = none
  | 0, _ => ⟨hi, rfl, rfl, fun _ h => absurd h (Nat.not_lt_zero _)⟩
  | n + 1, hn => by
    obtain ⟨i1, i2, i3, i4⟩ := finishFrom_facts s hi n (by omega)
    simp only [Sh.finishFrom]
    split
    · obtain ⟨f1, f2, f3⟩ := clear_facts (s.finishFrom n) n none
      refine ⟨inv_clear i1 (by omega) (by simp), by rw [f1, i2], by rw [f2, i3], fun h hh => ?_⟩
      rw [f3]
      by_cases e : h = n
      · simp [upd, e]
      · simp only [upd, e, if_false]; exact i4 h (by omega)
    · rename_i hna
      refine ⟨i1, i2, i3, fun h hh => ?_⟩
      by_cases e : h = n
      · subst e
        have : ¬ (h < (s.finishFrom h).k ∧ (s.finishFrom h).slot h ≠ none) := fun c => hna ((alive_iff _ _).mpr c)
        rw [i2] at this
        by_cases e2 : (s.finishFrom h).slot h = none
        · exact e2
        · exact absurd ⟨by omega, e2⟩ this
      · exact i4 h (by omega)

/-- **exactly one destruction per managed object**: once the program's handles are gone, every object that was ever
    created has been destroyed exactly once — for every operation sequence -/
theorem sh_each_object_destroyed_exactly_once (k : Nat) (ops : List ShOp) (s : Sh) (h : (Sh.init k).run ops = some s)
    (o : Nat) (ho : o < s.next) : s.finish.cnt o = 1 := by
  have hi := sh_inv_run ops _ s (inv_init k) h
  obtain ⟨i1, i2, i3, i4⟩ := finishFrom_facts s hi s.k (Nat.le_refl _)
  unfold Sh.finish
  rcases i1.live o (by rw [i3]; exact ho) with ⟨_, ⟨h', hk, hs⟩⟩ | ⟨a, _⟩
  · rw [i2] at hk
    rw [i4 h' hk] at hs
    cases hs
  · exact a

/-- D16: self copy-assignment and self move-assignment change nothing (`std::shared_ptr` behaviour) -/
theorem sh_self_assign_keeps (s : Sh) (h : Nat) (ha : s.alive h = true) :
    s.step (.asgc h h) = some (s, .none) ∧ s.step (.asgm h h) = some (s, .none) := by
  simp [Sh.step, ha]

example : ∃ s, (Sh.init 2).run [.ctorp 0, .ctorc 1 0, .asgc 0 0, .dtor 0, .asgm 1 1] = some s ∧ s.cnt 0 = 0 ∧
    s.finish.cnt 0 = 1 := ⟨_, rfl, rfl, rfl⟩

/-! ## unique_ptr: ownership invariants for every operation sequence -/

/-- who can own an object in a unique_ptr program: a handle slot, or a raw pointer the program got from `release()` -/
inductive Holder where
  | slot (h : Nat)
  | raw (r : Nat)
  deriving DecidableEq

/-- what a holder owns -/
def own (s : Un) : Holder → Option Nat
  | .slot h => if h < s.k then s.target h else none
  | .raw r => if r < s.nraw then s.raw r else none

/-- the invariant: as for shared_ptr, plus **every object has at most one owner** -/
structure OInv (own : Holder → Option Nat) (next : Nat) (cnt : Nat → Nat) : Prop where
  fresh : ∀ o, next ≤ o → cnt o = 0
  bound : ∀ x o, own x = some o → o < next
  live : ∀ o, o < next → (cnt o = 0 ∧ ∃ x, own x = some o) ∨ (cnt o = 1 ∧ ¬ ∃ x, own x = some o)
  uniq : ∀ x y o, own x = some o → own y = some o → x = y

def UnInv (s : Un) : Prop := OInv (own s) s.next s.cnt

def swapH (x y z : Holder) : Holder := if z = x then y else if z = y then x else z

theorem swapH_invol (x y z : Holder) : swapH x y (swapH x y z) = z := by
  unfold swapH
  by_cases h1 : z = x
  · by_cases h2 : y = x
    · simp [h1, h2]
    · simp [h1, h2]
  · by_cases h2 : z = y
    · simp [h1, h2]
    · simp [h1, h2]

/-- ownership moves along a permutation of the holders (swap; move into an empty holder): nothing is destroyed -/
theorem oinv_perm {ow ow' : Holder → Option Nat} {next : Nat} {cnt : Nat → Nat} (hi : OInv ow next cnt) (x y : Holder)
    (e : ∀ z, ow' z = ow (swapH x y z)) : OInv ow' next cnt := by
  refine ⟨hi.fresh, fun z o h => hi.bound _ o (e z ▸ h), fun o ho => ?_, fun z1 z2 o h1 h2 => ?_⟩
  · rcases hi.live o ho with ⟨a, z, hz⟩ | ⟨a, b⟩
    · exact Or.inl ⟨a, swapH x y z, by rw [e, swapH_invol]; exact hz⟩
    · exact Or.inr ⟨a, fun ⟨z, hz⟩ => b ⟨swapH x y z, e z ▸ hz⟩⟩
  · have := hi.uniq _ _ o (e z1 ▸ h1) (e z2 ▸ h2)
    have := congrArg (swapH x y) this
    rwa [swapH_invol, swapH_invol] at this

theorem oinv_same {ow ow' : Holder → Option Nat} {next : Nat} {cnt : Nat → Nat} (hi : OInv ow next cnt)
    (e : ∀ z, ow' z = ow z) : OInv ow' next cnt := by
  have : ow' = ow := funext e
  rw [this]; exact hi

/-- `delete` of what holder `x` owns: that object (and only it) is destroyed, once -/
theorem oinv_kill {ow ow' : Holder → Option Nat} {next : Nat} {cnt : Nat → Nat} (hi : OInv ow next cnt) (x : Holder) (o : Nat)
    (hx : ow x = some o) (e : ∀ z, ow' z = if z = x then none else ow z) : OInv ow' next (upd cnt o (cnt o + 1)) := by
  have ho : o < next := hi.bound x o hx
  have hc : cnt o = 0 := by
    rcases hi.live o ho with ⟨a, _⟩ | ⟨_, b⟩
    · exact a
    · exact absurd ⟨x, hx⟩ b
  have sub : ∀ z o', ow' z = some o' → ow z = some o' := by
    intro z o' h
    rw [e] at h
    by_cases c : z = x
    · simp [c] at h
    · simpa [c] using h
  refine ⟨fun o' ho' => ?_, fun z o' h => hi.bound z o' (sub z o' h), fun o' ho' => ?_,
    fun z1 z2 o' h1 h2 => hi.uniq z1 z2 o' (sub _ _ h1) (sub _ _ h2)⟩
  · have : o' ≠ o := by omega
    simp only [upd, this, if_false]; exact hi.fresh o' ho'
  · by_cases c : o' = o
    · subst c
      refine Or.inr ⟨by simp [upd, hc], fun ⟨z, hz⟩ => ?_⟩
      have h1 := sub z o' hz
      have := hi.uniq z x o' h1 hx
      subst this
      rw [e] at hz; simp at hz
    · simp only [upd, c, if_false]
      rcases hi.live o' ho' with ⟨a, z, hz⟩ | ⟨a, b⟩
      · refine Or.inl ⟨a, z, ?_⟩
        rw [e]
        have : z ≠ x := fun c2 => by subst c2; rw [hx] at hz; simp at hz; exact c hz.symm
        simp [this, hz]
      · exact Or.inr ⟨a, fun ⟨z, hz⟩ => b ⟨z, sub z o' hz⟩⟩

/-- a new object goes to an empty holder -/
theorem oinv_alloc {ow ow' : Holder → Option Nat} {next : Nat} {cnt : Nat → Nat} (hi : OInv ow next cnt) (x : Holder)
    (hx : ow x = none) (e : ∀ z, ow' z = if z = x then some next else ow z) : OInv ow' (next + 1) cnt := by
  refine ⟨fun o ho => hi.fresh o (by omega), fun z o h => ?_, fun o ho => ?_, fun z1 z2 o h1 h2 => ?_⟩
  · rw [e] at h
    by_cases c : z = x
    · simp [c] at h; omega
    · simp [c] at h; have := hi.bound z o h; omega
  · by_cases c : o = next
    · exact Or.inl ⟨hi.fresh o (by omega), x, by rw [e]; simp [c]⟩
    · rcases hi.live o (by omega) with ⟨a, z, hz⟩ | ⟨a, b⟩
      · refine Or.inl ⟨a, z, ?_⟩
        rw [e]
        have : z ≠ x := fun c2 => by subst c2; rw [hx] at hz; cases hz
        simp [this, hz]
      · refine Or.inr ⟨a, fun ⟨z, hz⟩ => ?_⟩
        rw [e] at hz
        by_cases c2 : z = x
        · simp [c2] at hz; exact c hz.symm
        · simp [c2] at hz; exact b ⟨z, hz⟩
  · rw [e] at h1 h2
    by_cases c1 : z1 = x
    · by_cases c2 : z2 = x
      · rw [c1, c2]
      · simp [c1] at h1; simp [c2] at h2
        have := hi.bound z2 o h2; omega
    · by_cases c2 : z2 = x
      · simp [c2] at h2; simp [c1] at h1
        have := hi.bound z1 o h1; omega
      · simp [c1] at h1; simp [c2] at h2
        exact hi.uniq z1 z2 o h1 h2

@[simp] theorem delete_slot (s : Un) (t : Option Nat) : (s.delete t).slot = s.slot := by cases t <;> rfl
@[simp] theorem delete_k (s : Un) (t : Option Nat) : (s.delete t).k = s.k := by cases t <;> rfl
@[simp] theorem delete_raw (s : Un) (t : Option Nat) : (s.delete t).raw = s.raw := by cases t <;> rfl
@[simp] theorem delete_nraw (s : Un) (t : Option Nat) : (s.delete t).nraw = s.nraw := by cases t <;> rfl
@[simp] theorem delete_next (s : Un) (t : Option Nat) : (s.delete t).next = s.next := by cases t <;> rfl

/-- ownership after `delete` of slot `h`'s target, the slot itself left without target -/
def ownD (s : Un) (h : Nat) : Holder → Option Nat := fun z => if z = Holder.slot h then none else own s z

theorem un_drop {s : Un} (hi : UnInv s) {h : Nat} (hh : h < s.k) :
    OInv (ownD s h) (s.delete (s.target h)).next (s.delete (s.target h)).cnt := by
  rw [delete_next]
  have hown : own s (.slot h) = s.target h := by simp [own, hh]
  cases ht : s.target h with
  | none =>
    refine oinv_same hi (fun z => ?_)
    unfold ownD
    by_cases c : z = Holder.slot h
    · simp [c, hown, ht]
    · simp [c]
  | some o =>
    exact oinv_kill hi (.slot h) o (by rw [hown, ht]) (fun z => rfl)

theorem un_vacant_iff (s : Un) (h : Nat) : s.vacant h = true ↔ h < s.k ∧ s.slot h = none := by
  unfold Un.vacant; simp

theorem un_alive_iff (s : Un) (h : Nat) : s.alive h = true ↔ h < s.k ∧ s.slot h ≠ none := by
  unfold Un.alive; simp

theorem own_init (k : Nat) (z : Holder) : own (Un.init k) z = none := by
  cases z with
  | slot h => by_cases c : h < k <;> simp [own, Un.init, Un.target, c]
  | raw r => simp [own, Un.init]

theorem un_inv_init (k : Nat) : UnInv (Un.init k) := by
  refine ⟨fun _ _ => rfl, fun x o h => ?_, fun o h => ?_, fun x y o h => ?_⟩
  · rw [own_init] at h; cases h
  · simp [Un.init] at h
  · rw [own_init] at h; cases h

theorem holder_slot_ne {a b : Nat} (h : a ≠ b) : Holder.slot a ≠ Holder.slot b := fun e => h (Holder.slot.inj e)

/-- the slot ends without target after its old target was deleted: dtor, `= nullptr`, `reset()`, conversion to std -/
theorem un_inv_drop {s : Un} (hi : UnInv s) {h : Nat} (hh : h < s.k) (v : Slot) (hv : v = none ∨ v = some none) :
    UnInv { s.delete (s.target h) with slot := upd (s.delete (s.target h)).slot h v } := by
  show OInv (own _) (s.delete (s.target h)).next (s.delete (s.target h)).cnt
  refine oinv_same (un_drop hi hh) (fun z => ?_)
  unfold ownD
  cases z with
  | slot a =>
    by_cases c : a = h
    · subst c
      rcases hv with hv | hv <;> simp [own, Un.target, upd, hv]
    · simp [own, Un.target, upd, c, holder_slot_ne c]
  | raw r => simp [own]

/-- the slot gets a new object after its old target was deleted: `reset(new P)`, assignment from a temporary -/
theorem un_inv_renew {s : Un} (hi : UnInv s) {h : Nat} (hh : h < s.k) :
    UnInv { s.reset h (some s.next) with next := s.next + 1 } := by
  show OInv (own _) (s.next + 1) (s.delete (s.target h)).cnt
  unfold Un.reset
  have h1 := un_drop hi hh
  rw [delete_next] at h1
  refine oinv_alloc h1 (.slot h) (by simp [ownD]) (fun z => ?_)
  unfold ownD
  cases z with
  | slot a =>
    by_cases c : a = h
    · subst c; simp [own, Un.target, upd, hh]
    · simp [own, Un.target, upd, c, holder_slot_ne c]
  | raw r => simp [own]

theorem holder_slot_raw (a b : Nat) : Holder.slot a ≠ Holder.raw b := fun e => Holder.noConfusion e
theorem holder_raw_ne {a b : Nat} (h : a ≠ b) : Holder.raw a ≠ Holder.raw b := fun e => h (Holder.raw.inj e)

theorem getD_of_ne_none {x : Slot} (h : x ≠ none) : some (x.getD none) = x := by
  cases x with
  | none => exact absurd rfl h
  | some t => rfl

/-- every operation preserves the invariant -/
theorem un_inv_step {s s' : Un} {op : UnOp} {ob : PtrObs} (hi : UnInv s) (h : s.step op = some (s', ob)) : UnInv s' := by
  cases op with
  | ctor h0 =>
    simp only [Un.step] at h
    split at h
    · rename_i hv
      obtain ⟨hk, hs⟩ := (un_vacant_iff s h0).mp hv
      simp only [Option.some.injEq, Prod.mk.injEq] at h; obtain ⟨h1, _⟩ := h; subst h1
      refine oinv_same hi (fun z => ?_)
      cases z with
      | slot a =>
        by_cases c : a = h0
        · subst c; simp [own, Un.target, upd, hs]
        · simp [own, Un.target, upd, c]
      | raw r => simp [own]
    · simp at h
  | ctorp h0 =>
    simp only [Un.step] at h
    split at h
    · rename_i hv
      obtain ⟨hk, hs⟩ := (un_vacant_iff s h0).mp hv
      simp only [Option.some.injEq, Prod.mk.injEq] at h; obtain ⟨h1, _⟩ := h; subst h1
      refine oinv_alloc hi (.slot h0) (by simp [own, Un.target, hs]) (fun z => ?_)
      cases z with
      | slot a =>
        by_cases c : a = h0
        · subst c; simp [own, Un.target, upd, hk]
        · simp [own, Un.target, upd, c, holder_slot_ne c]
      | raw r => simp [own, (holder_slot_raw h0 r).symm]
    · simp at h
  | ctorm h0 g =>
    simp only [Un.step] at h
    split at h
    · rename_i hv
      obtain ⟨hk, hs⟩ := (un_vacant_iff s h0).mp hv.1
      obtain ⟨hg, hgs⟩ := (un_alive_iff s g).mp hv.2
      simp only [Option.some.injEq, Prod.mk.injEq] at h; obtain ⟨h1, _⟩ := h; subst h1
      have hne : h0 ≠ g := fun e => hgs (e ▸ hs)
      refine oinv_perm hi (.slot h0) (.slot g) (fun z => ?_)
      unfold swapH
      cases z with
      | slot a =>
        by_cases c : a = h0
        · subst c; simp [own, Un.target, upd, hk, hg]
        · by_cases c2 : a = g
          · subst c2
            have : a ≠ h0 := c
            simp [own, Un.target, upd, c, hk, hg, hs, holder_slot_ne c]
          · simp [own, Un.target, upd, c, c2, holder_slot_ne c, holder_slot_ne c2]
      | raw r => simp [own, (holder_slot_raw h0 r).symm, (holder_slot_raw g r).symm]
    · simp at h
  | dtor h0 =>
    simp only [Un.step] at h
    split at h
    · rename_i hv
      obtain ⟨hk, _⟩ := (un_alive_iff s h0).mp hv
      simp only [Option.some.injEq, Prod.mk.injEq] at h; obtain ⟨h1, _⟩ := h; subst h1
      exact un_inv_drop hi hk none (Or.inl rfl)
    · simp at h
  | asgm h0 g =>
    simp only [Un.step] at h
    split at h
    · rename_i hv
      obtain ⟨hk, hhs⟩ := (un_alive_iff s h0).mp hv.1
      obtain ⟨hg, hgs⟩ := (un_alive_iff s g).mp hv.2
      simp only [Option.some.injEq, Prod.mk.injEq] at h; obtain ⟨h1, _⟩ := h; subst h1
      by_cases e : h0 = g
      · subst e
        -- self move-assignment: release() empties the handle, reset(p) finds nothing to delete and stores p back
        have ht : ({ s with slot := upd s.slot h0 (some none) } : Un).target h0 = none := by simp [Un.target, upd]
        show OInv (own _) _ _
        unfold Un.reset
        rw [ht]
        refine oinv_same hi (fun z => ?_)
        cases z with
        | slot a =>
          by_cases c : a = h0
          · subst c; simp [own, Un.target, upd, Un.delete]
          · simp [own, Un.target, upd, c, Un.delete]
        | raw r => rfl
      · have ht : ({ s with slot := upd s.slot g (some none) } : Un).target h0 = s.target h0 := by
          simp [Un.target, upd, e]
        show OInv (own _) _ _
        unfold Un.reset
        rw [ht]
        have h1 := un_drop hi hk
        have hc : ({ s with slot := upd s.slot g (some none) } : Un).delete (s.target h0) =
            { s.delete (s.target h0) with slot := upd s.slot g (some none) } := by
          cases s.target h0 <;> rfl
        rw [hc]
        refine oinv_perm h1 (.slot h0) (.slot g) (fun z => ?_)
        unfold swapH ownD
        have e' : g ≠ h0 := fun x => e x.symm
        cases z with
        | slot a =>
          by_cases c : a = h0
          · subst c; simp [own, Un.target, upd, hk, hg, holder_slot_ne e']
          · by_cases c2 : a = g
            · subst c2; simp [own, Un.target, upd, c, hk, hg, holder_slot_ne c]
            · simp [own, Un.target, upd, c, c2, holder_slot_ne c, holder_slot_ne c2]
        | raw r => simp [own, (holder_slot_raw h0 r).symm, (holder_slot_raw g r).symm]
    · simp at h
  | asgn h0 =>
    simp only [Un.step] at h
    split at h
    · rename_i hv
      obtain ⟨hk, _⟩ := (un_alive_iff s h0).mp hv
      simp only [Option.some.injEq, Prod.mk.injEq] at h; obtain ⟨h1, _⟩ := h; subst h1
      exact un_inv_drop hi hk (some none) (Or.inr rfl)
    · simp at h
  | asgp h0 =>
    simp only [Un.step] at h
    split at h
    · rename_i hv
      obtain ⟨hk, _⟩ := (un_alive_iff s h0).mp hv
      simp only [Option.some.injEq, Prod.mk.injEq] at h; obtain ⟨h1, _⟩ := h; subst h1
      exact un_inv_renew hi hk
    · simp at h
  | reset h0 =>
    simp only [Un.step] at h
    split at h
    · rename_i hv
      obtain ⟨hk, _⟩ := (un_alive_iff s h0).mp hv
      simp only [Option.some.injEq, Prod.mk.injEq] at h; obtain ⟨h1, _⟩ := h; subst h1
      exact un_inv_drop hi hk (some none) (Or.inr rfl)
    · simp at h
  | resetp h0 =>
    simp only [Un.step] at h
    split at h
    · rename_i hv
      obtain ⟨hk, _⟩ := (un_alive_iff s h0).mp hv
      simp only [Option.some.injEq, Prod.mk.injEq] at h; obtain ⟨h1, _⟩ := h; subst h1
      exact un_inv_renew hi hk
    · simp at h
  | release h0 =>
    simp only [Un.step] at h
    split at h
    · rename_i hv
      obtain ⟨hk, _⟩ := (un_alive_iff s h0).mp hv
      simp only [Option.some.injEq, Prod.mk.injEq] at h; obtain ⟨h1, _⟩ := h; subst h1
      refine oinv_perm hi (.slot h0) (.raw s.nraw) (fun z => ?_)
      unfold swapH
      cases z with
      | slot a =>
        by_cases c : a = h0
        · subst c; simp [own, Un.target, upd]
        · simp [own, Un.target, upd, c, holder_slot_ne c, holder_slot_raw]
      | raw r =>
        by_cases c : r = s.nraw
        · simp [own, upd, c, hk, (holder_slot_raw h0 s.nraw).symm]
        · have c1 : (r < s.nraw + 1) = (r < s.nraw) := by
            apply propext; constructor <;> intro x <;> omega
          simp [own, upd, c, c1, (holder_slot_raw h0 r).symm, holder_raw_ne c]
    · simp at h
  | adopt h0 r =>
    simp only [Un.step] at h
    split at h
    · rename_i hv
      obtain ⟨hk, _⟩ := (un_alive_iff s h0).mp hv.1
      obtain ⟨hr, _⟩ := hv.2
      simp only [Option.some.injEq, Prod.mk.injEq] at h; obtain ⟨h1, _⟩ := h; subst h1
      show OInv (own _) _ _
      unfold Un.reset
      refine oinv_perm (un_drop hi hk) (.slot h0) (.raw r) (fun z => ?_)
      unfold swapH ownD
      cases z with
      | slot a =>
        by_cases c : a = h0
        · subst c; simp [own, Un.target, upd, hk, hr, (holder_slot_raw a r).symm]
        · simp [own, Un.target, upd, c, holder_slot_ne c, holder_slot_raw]
      | raw q =>
        by_cases c : q = r
        · subst c; simp [own, upd, (holder_slot_raw h0 q).symm]
        · simp [own, upd, c, (holder_slot_raw h0 q).symm, holder_raw_ne c]
    · simp at h
  | del r =>
    simp only [Un.step] at h
    split at h
    · rename_i hv
      obtain ⟨hr, hsome⟩ := hv
      simp only [Option.some.injEq, Prod.mk.injEq] at h; obtain ⟨h1, _⟩ := h; subst h1
      cases hraw : s.raw r with
      | none => rw [hraw] at hsome; simp at hsome
      | some o =>
        show OInv (own { s with raw := upd s.raw r none, cnt := upd s.cnt o (s.cnt o + 1) }) s.next (upd s.cnt o (s.cnt o + 1))
        refine oinv_kill hi (.raw r) o (by simp [own, hr, hraw]) (fun z => ?_)
        cases z with
        | slot a => simp [own, Un.target, holder_slot_raw a r]
        | raw q =>
          by_cases c : q = r
          · simp [own, upd, c]
          · simp [own, upd, c, holder_raw_ne c]
    · simp at h
  | swap h0 g =>
    simp only [Un.step] at h
    split at h
    · rename_i hv
      obtain ⟨hk, _⟩ := (un_alive_iff s h0).mp hv.1
      obtain ⟨hg, _⟩ := (un_alive_iff s g).mp hv.2
      simp only [Option.some.injEq, Prod.mk.injEq] at h; obtain ⟨h1, _⟩ := h; subst h1
      refine oinv_perm hi (.slot h0) (.slot g) (fun z => ?_)
      unfold swapH
      cases z with
      | slot a =>
        by_cases c : a = g
        · subst c
          by_cases c2 : a = h0
          · subst c2; simp [own, Un.target, upd]
          · simp [own, Un.target, upd, c2, hk, hg, holder_slot_ne c2]
        · by_cases c2 : a = h0
          · subst c2; simp [own, Un.target, upd, c, hk, hg]
          · simp [own, Un.target, upd, c, c2, holder_slot_ne c, holder_slot_ne c2]
      | raw r => simp [own, (holder_slot_raw h0 r).symm, (holder_slot_raw g r).symm]
    · simp at h
  | tostd h0 =>
    simp only [Un.step] at h
    split at h
    · rename_i hv
      obtain ⟨hk, _⟩ := (un_alive_iff s h0).mp hv
      simp only [Option.some.injEq, Prod.mk.injEq] at h; obtain ⟨h1, _⟩ := h; subst h1
      exact un_inv_drop hi hk (some none) (Or.inr rfl)
    · simp at h
  | get h0 =>
    simp only [Un.step] at h
    split at h
    · simp only [Option.some.injEq, Prod.mk.injEq] at h; obtain ⟨h1, _⟩ := h; subst h1; exact hi
    · simp at h
  | eq h0 g =>
    simp only [Un.step] at h
    split at h
    · simp only [Option.some.injEq, Prod.mk.injEq] at h; obtain ⟨h1, _⟩ := h; subst h1; exact hi
    · simp at h

/-- **the invariant holds after every operation sequence** -/
theorem un_inv_run : ∀ (ops : List UnOp) (s s' : Un), UnInv s → s.run ops = some s' → UnInv s'
  | [], s, s', hi, h => by simp [Un.run] at h; subst h; exact hi
  | o :: os, s, s', hi, h => by
    simp only [Un.run] at h
    cases hs : s.step o with
    | none => simp [hs] at h
    | some x =>
      obtain ⟨s1, ob⟩ := x
      simp only [hs] at h
      exact un_inv_run os s1 s' (un_inv_step hi hs) h

/-- **no use after destroy**: whatever a handle or a released raw pointer refers to is a created object whose
    destructor has not run -/
theorem un_no_use_after_destroy (k : Nat) (ops : List UnOp) (s : Un) (h : (Un.init k).run ops = some s)
    (x : Holder) (o : Nat) (hx : own s x = some o) : o < s.next ∧ s.cnt o = 0 := by
  have hi := un_inv_run ops _ s (un_inv_init k) h
  have ho := hi.bound x o hx
  refine ⟨ho, ?_⟩
  rcases hi.live o ho with ⟨a, _⟩ | ⟨_, b⟩
  · exact a
  · exact absurd ⟨x, hx⟩ b

theorem un_never_destroyed_twice (k : Nat) (ops : List UnOp) (s : Un) (h : (Un.init k).run ops = some s) (o : Nat) :
    s.cnt o ≤ 1 := by
  have hi := un_inv_run ops _ s (un_inv_init k) h
  rcases Nat.lt_or_ge o s.next with ho | ho
  · rcases hi.live o ho with ⟨a, _⟩ | ⟨a, _⟩ <;> omega
  · rw [hi.fresh o ho]; omega

/-- **ownership is unique**: no two holders (handles or released raw pointers) ever own the same object -/
theorem un_unique_owner (k : Nat) (ops : List UnOp) (s : Un) (h : (Un.init k).run ops = some s)
    (x y : Holder) (o : Nat) (hx : own s x = some o) (hy : own s y = some o) : x = y :=
  (un_inv_run ops _ s (un_inv_init k) h).uniq x y o hx hy

theorem stepD_inv {s : Un} (hi : UnInv s) (op : UnOp) : UnInv (s.stepD op) := by
  unfold Un.stepD
  cases hs : s.step op with
  | none => exact hi
  | some x => exact un_inv_step hi hs

theorem dtor_facts (s : Un) (h : Nat) :
    (s.stepD (.dtor h)).k = s.k ∧ (s.stepD (.dtor h)).nraw = s.nraw ∧ (s.stepD (.dtor h)).raw = s.raw ∧
    (s.stepD (.dtor h)).next = s.next ∧ (h < s.k → (s.stepD (.dtor h)).slot h = none) ∧
    ∀ a, a ≠ h → (s.stepD (.dtor h)).slot a = s.slot a := by
  unfold Un.stepD
  simp only [Un.step]
  split
  · rename_i s' ob heq
    split at heq
    · simp only [Option.some.injEq, Prod.mk.injEq] at heq
      obtain ⟨h1, _⟩ := heq
      subst h1
      refine ⟨by simp, by simp, by simp, by simp, fun _ => by simp [upd], fun a ha => by simp [upd, ha]⟩
    · cases heq
  · rename_i heq
    split at heq
    · cases heq
    · rename_i hna
      refine ⟨rfl, rfl, rfl, rfl, fun hk => ?_, fun _ _ => rfl⟩
      by_cases e : s.slot h = none
      · exact e
      · exact absurd ((un_alive_iff s h).mpr ⟨hk, e⟩) hna

theorem del_facts (s : Un) (r : Nat) :
    (s.stepD (.del r)).k = s.k ∧ (s.stepD (.del r)).slot = s.slot ∧ (s.stepD (.del r)).nraw = s.nraw ∧
    (s.stepD (.del r)).next = s.next ∧ (r < s.nraw → (s.stepD (.del r)).raw r = none) ∧
    ∀ q, q ≠ r → (s.stepD (.del r)).raw q = s.raw q := by
  unfold Un.stepD
  simp only [Un.step]
  split
  · rename_i s' ob heq
    split at heq
    · simp only [Option.some.injEq, Prod.mk.injEq] at heq
      obtain ⟨h1, _⟩ := heq
      subst h1
      refine ⟨by simp, by simp, by simp, by simp, fun _ => by simp [upd], fun a ha => by simp [upd, ha]⟩
    · cases heq
  · rename_i heq
    split at heq
    · cases heq
    · rename_i hna
      refine ⟨rfl, rfl, rfl, rfl, fun hk => ?_, fun _ _ => rfl⟩
      cases e : s.raw r with
      | none => rfl
      | some o => exact absurd ⟨hk, by simp [e]⟩ hna

theorem finishSlots_facts (s : Un) (hi : UnInv s) : ∀ n, n ≤ s.k →
    UnInv (s.finishSlots n) ∧ (s.finishSlots n).k = s.k ∧ (s.finishSlots n).nraw = s.nraw ∧
    ∀ h, h < n → (s.finishSlots n).slot h = none
  | 0, _ => ⟨hi, rfl, rfl, fun _ h => absurd h (Nat.not_lt_zero _)⟩
  | n + 1, hn => by
    obtain ⟨i1, i2, i3, i4⟩ := finishSlots_facts s hi n (by omega)
    obtain ⟨d1, d2, _, _, d5, d6⟩ := dtor_facts (s.finishSlots n) n
    simp only [Un.finishSlots]
    refine ⟨stepD_inv i1 _, by rw [d1, i2], by rw [d2, i3], fun h hh => ?_⟩
    by_cases e : h = n
    · subst e; exact d5 (by rw [i2]; omega)
    · rw [d6 h e]; exact i4 h (by omega)

theorem finishRaws_facts (s : Un) (hi : UnInv s) : ∀ n, n ≤ s.nraw →
    UnInv (s.finishRaws n) ∧ (s.finishRaws n).k = s.k ∧ (s.finishRaws n).slot = s.slot ∧ (s.finishRaws n).nraw = s.nraw ∧
    (s.finishRaws n).next = s.next ∧ ∀ r, r < n → (s.finishRaws n).raw r = none
  | 0, _ => ⟨hi, rfl, rfl, rfl, rfl, fun _ h => absurd h (Nat.not_lt_zero _)⟩
  | n + 1, hn => by
    obtain ⟨i1, i2, i3, i4, i5, i6⟩ := finishRaws_facts s hi n (by omega)
    obtain ⟨d1, d2, d3, d4, d5, d6⟩ := del_facts (s.finishRaws n) n
    simp only [Un.finishRaws]
    refine ⟨stepD_inv i1 _, by rw [d1, i2], by rw [d2, i3], by rw [d3, i4], by rw [d4, i5], fun r hr => ?_⟩
    by_cases e : r = n
    · subst e; exact d5 (by rw [i4]; omega)
    · rw [d6 r e]; exact i6 r (by omega)

/-- at any moment every created object is either live and owned, or destroyed exactly once and owned by nobody -/
theorem un_owned_or_destroyed_once (k : Nat) (ops : List UnOp) (s : Un) (h : (Un.init k).run ops = some s) (o : Nat)
    (ho : o < s.next) : (s.cnt o = 0 ∧ ∃ x, own s x = some o) ∨ (s.cnt o = 1 ∧ ¬ ∃ x, own s x = some o) :=
  (un_inv_run ops _ s (un_inv_init k) h).live o ho

/-- **exactly one destruction per managed object**: once the handles are destroyed and the released pointers deleted,
    every object that was ever created has been destroyed exactly once — for every operation sequence -/
theorem un_each_object_destroyed_exactly_once (k : Nat) (ops : List UnOp) (s : Un) (h : (Un.init k).run ops = some s)
    (o : Nat) (ho : o < s.next) : s.finish.cnt o = 1 := by
  have hi := un_inv_run ops _ s (un_inv_init k) h
  obtain ⟨a1, a2, a3, a4⟩ := finishSlots_facts s hi s.k (Nat.le_refl _)
  obtain ⟨b1, b2, b3, b4, b5, b6⟩ := finishRaws_facts (s.finishSlots s.k) a1 (s.finishSlots s.k).nraw (Nat.le_refl _)
  have hnext : (s.finishSlots s.k).next = s.next := by
    have : ∀ n, (s.finishSlots n).next = s.next := by
      intro n
      induction n with
      | zero => rfl
      | succ n ih => simp only [Un.finishSlots]; rw [(dtor_facts _ n).2.2.2.1, ih]
    exact this s.k
  show (Un.finishRaws (s.finishSlots s.k) (s.finishSlots s.k).nraw).cnt o = 1
  rcases b1.live o (by rw [b5, hnext]; exact ho) with ⟨_, x, hx⟩ | ⟨a, _⟩
  · exfalso
    cases x with
    | slot a =>
      simp only [own, Un.target] at hx
      rw [b2, b3] at hx
      by_cases c : a < (s.finishSlots s.k).k
      · rw [a2] at c; simp [a2, c, a4 a c] at hx
      · simp [c] at hx
    | raw r =>
      simp only [own] at hx
      by_cases c : r < (Un.finishRaws (s.finishSlots s.k) (s.finishSlots s.k).nraw).nraw
      · rw [b4] at c; simp [b4, c, b6 r c] at hx
      · simp [c] at hx
  · exact a

example : ∃ s, (Un.init 2).run [.ctorp 0, .ctor 1, .asgm 1 0, .asgm 1 1, .release 1, .resetp 0, .adopt 1 0] = some s ∧
    s.cnt 0 = 0 ∧ s.finish.cnt 0 = 1 ∧ s.finish.cnt 1 = 1 := ⟨_, rfl, rfl, rfl, rfl⟩

end Otel.C20
