import OtelVerif.Lemmas.SpanLock
import OtelVerif.Gen.SpanLock
/-! # C04, concurrency clause — mutators racing `End` on one span

"for every sequence of span operations (including operations after End **and from several threads on one span**)":
theorems about `Model/SpanLock.lean`, for EVERY interleaving of the lock / test / write / hand-off / unlock steps of any
number of threads calling the mutators, `End` and `IsRecording` of one recording span (no bound on the number of threads,
calls or steps): one inductive invariant (`Otel.SpanLock.Inv`, `reachable_inv`) and from it

* no setter is ever called through a null `recordable_` (`no_null_deref`, `write_holds_lock_and_recordable`);
* `OnEnd` is called at most once, with exactly the log of the writes; exactly once as soon as some `End` has returned
  (`onend_at_most_once`, `handed_off_is_the_log`, `onend_exactly_once_when_end_returned`);
* that log is in lock-acquisition order (`handed_off_in_acquisition_order`, `log_follows_acquisition_order`) and nothing
  reaches it after the hand-off (`frozen_after_handoff`);
* a mutator racing `End` is wholly in the exported span or wholly ignored: a call that began after an `End` returned is
  ignored (`late_mutator_ignored`), a call that returns before any `End` began was applied (`early_mutator_recorded`,
  `applied_in_log`); `IsRecording` is false after an `End` returned and true before any began
  (`is_recording_false_after_end`, `is_recording_true_before_end`).

The step structure the model assumes — every mutator takes `mu_` *before* it tests `recordable_`, `End` holds `mu_` from
its `has_ended_` test to the hand-off — is re-extracted from `span.cc` on every run (`gen_span_lock_facts`); real
executions of the unmodified `span.cc` under the deterministic scheduler are replayed on the model (`Model/SpanLock.lean`
`astep`, `replay_sound`). -/
namespace Otel.C04Race
open Otel Otel.SpanLock

/-- does a thread at this program counter hold `mu_`? -/
def holds : Pc → Bool
  | .mChk _ _ => true
  | .mWrite _ _ => true
  | .mUnlock _ _ _ => true
  | .eChk => true
  | .eDur => true
  | .eHand => true
  | .eUnlock => true
  | .rRead _ => true
  | .rUnlock _ _ => true
  | _ => false

theorem holds_lock {s : St} (hI : Inv s) (t : Nat) (ht : holds (s.pc t) = true) : s.lock = some t := by
  have h := hI.th t
  unfold TInv at h
  cases hp : s.pc t <;> rw [hp] at h ht <;> first | exact h.1 | cases ht

/-- `pendPc` is empty once `recordable_` is null -/
theorem pendPc_null (p : Pc) (e : Bool) : pendPc p false e = [] := by
  cases p <;> simp [pendPc]

theorem pendPc_length (p : Pc) (r e : Bool) : (pendPc p r e).length ≤ 1 := by
  cases p <;> simp only [pendPc] <;> (try split) <;> simp

section reachable
variable {as : List Act} {s : St} (h : run init as = some s)
include h

/-- **mutual exclusion**: the critical sections of `span.cc` (test, write, hand-off) never overlap -/
theorem mutual_exclusion (t t' : Nat) (ht : holds (s.pc t) = true) (ht' : holds (s.pc t') = true) : t = t' :=
  holder_unique (holds_lock (reachable_inv as s h) t ht) (holds_lock (reachable_inv as s h) t' ht')

/-- **no crash**: no setter of the recordable is ever called through a null `recordable_` -/
theorem no_null_deref : s.nullDerefs = 0 := (reachable_inv as s h).nd

/-- a thread about to call a setter holds `mu_`, the recordable is live and holds exactly the log so far, and the call
    did not begin after an `End` returned -/
theorem write_holds_lock_and_recordable (t : Nat) (m : Mut) (l : Bool) (hp : s.pc t = .mWrite m l) :
    s.lock = some t ∧ s.rcd = some s.log ∧ l = false := by
  have hI := reachable_inv as s h
  have ht := hI.th t
  unfold TInv at ht; rw [hp] at ht
  refine ⟨ht.1, ?_, ht.2.1⟩
  cases hr : s.rcd with
  | none => exact absurd hr ht.2.2
  | some w => rw [hI.rl w hr]

/-- **the handed-off recordable is the log**: either `OnEnd` has not been called and `recordable_` holds the writes so
    far, or it has been called exactly once, with exactly the log of the writes, and `recordable_` is null -/
theorem handed_off_is_the_log : (s.onEnds = [] ∧ s.rcd = some s.log) ∨ (s.onEnds = [some s.log] ∧ s.rcd = none) := by
  have hI := reachable_inv as s h
  cases he : s.ender with
  | none => exact Or.inl ⟨(hI.pre he).2.2.1, (hI.pre he).2.1⟩
  | some e =>
    rcases (hI.post e he).2.2 with h1 | h1
    · exact Or.inl ⟨h1.2.2.1, h1.2.1⟩
    · exact Or.inr ⟨h1.2.2, h1.2.1⟩

/-- **`OnEnd` at most once**, however many `End` calls race -/
theorem onend_at_most_once : s.onEnds.length ≤ 1 := by
  rcases handed_off_is_the_log h with h1 | h1 <;> rw [h1.1] <;> simp

/-- **`OnEnd` exactly once when some `End` has returned** — also the `End` of a thread that lost the race: it returns
    only after the winner has handed the recordable over -/
theorem onend_exactly_once_when_end_returned (hr : s.endReturned = true) : s.onEnds = [some s.log] ∧ s.rcd = none := by
  have hI := reachable_inv as s h
  have hn := returned_null hI hr
  rcases handed_off_is_the_log h with h1 | h1
  · rw [hn] at h1; cases h1.2
  · exact h1

/-- the log follows the order in which the calls acquired `mu_`: `acq` (calls that acquired the lock while the span was
    recording, `End` counted as its `SetDuration`) is the log plus at most the one call that holds the lock now -/
theorem log_follows_acquisition_order : ∃ x, s.acq = s.log ++ x ∧ x.length ≤ 1 := by
  have hI := reachable_inv as s h
  refine ⟨pend s, hI.aq, ?_⟩
  unfold pend
  cases s.lock with
  | none => simp
  | some t => exact pendPc_length _ _ _

/-- **what `OnEnd` received = the calls in lock-acquisition order** -/
theorem handed_off_in_acquisition_order (w : List Mut) (hw : s.onEnds = [some w]) : w = s.acq ∧ w = s.log := by
  have hI := reachable_inv as s h
  rcases handed_off_is_the_log h with h1 | h1
  · rw [h1.1] at hw; cases hw
  · rw [h1.1] at hw
    have : w = s.log := by simp only [List.cons.injEq, Option.some.injEq, and_true] at hw; exact hw.symm
    refine ⟨?_, this⟩
    rw [this, hI.aq]
    have : pend s = [] := by
      unfold pend
      cases s.lock with
      | none => rfl
      | some t => simp only [h1.2, Option.isSome_none]; exact pendPc_null _ _
    rw [this, List.append_nil]

/-- **a mutator that began after an `End` had returned is ignored** (it never reaches the recordable) -/
theorem late_mutator_ignored (t : Nat) (m : Mut) (a : Bool) (hp : s.pc t = .mUnlock m true a) : a = false := by
  have ht := (reachable_inv as s h).th t
  unfold TInv at ht; rw [hp] at ht
  exact ht.2.1 rfl

/-- **a mutator that returns before any `End` call began was applied** (contrapositive: it is only ignored when some
    `End` call has already begun) -/
theorem early_mutator_recorded (t : Nat) (m : Mut) (l : Bool) (hp : s.pc t = .mUnlock m l false) : s.endBegun = true := by
  have ht := (reachable_inv as s h).th t
  unfold TInv at ht; rw [hp] at ht
  exact ht.2.2.1 rfl

/-- an applied mutation is in the log (and stays there: `frozen_after_handoff`, `log_only_grows`) -/
theorem applied_in_log (t : Nat) (m : Mut) (l : Bool) (hp : s.pc t = .mUnlock m l true) : m ∈ s.log := by
  have ht := (reachable_inv as s h).th t
  unfold TInv at ht; rw [hp] at ht
  exact ht.2.2.2 rfl

/-- **`IsRecording` is false once an `End` has returned** -/
theorem is_recording_false_after_end (t : Nat) (b : Bool) (hp : s.pc t = .rDone true b) : b = false := by
  have ht := (reachable_inv as s h).th t
  unfold TInv at ht; rw [hp] at ht
  exact ht.1 rfl

/-- **`IsRecording` is true until some `End` call has begun** -/
theorem is_recording_true_before_end (t : Nat) (l : Bool) (hp : s.pc t = .rDone l false) : s.endBegun = true := by
  have ht := (reachable_inv as s h).th t
  unfold TInv at ht; rw [hp] at ht
  exact ht.2 rfl

/-- **nothing reaches the recordable after the hand-off**: once `OnEnd` has been called, no step of any thread changes
    the log or calls `OnEnd` again -/
theorem frozen_after_handoff (a : Act) (s' : St) (hon : s.onEnds ≠ []) (ha : act s a = some s') :
    s'.log = s.log ∧ s'.onEnds = s.onEnds := by
  have hI := reachable_inv as s h
  have hn : s.rcd = none := by
    rcases handed_off_is_the_log h with h1 | h1
    · exact absurd h1.1 hon
    · exact h1.2
  cases a with
  | call t op =>
    simp only [act, call] at ha
    cases hp : s.pc t <;> rw [hp] at ha <;> simp only at ha <;> first | cases ha | skip
    cases op <;> simp only at ha <;> cases ha <;> exact ⟨rfl, rfl⟩
  | step t =>
    have ht := hI.th t
    unfold TInv at ht
    simp only [act, step] at ha
    cases hp : s.pc t <;> rw [hp] at ha ht <;> simp only [hn] at ha
    case idle => cases ha
    case mLock => split at ha <;> cases ha; exact ⟨rfl, rfl⟩
    case mChk => cases ha; exact ⟨rfl, rfl⟩
    case mWrite => cases ha; exact ⟨rfl, rfl⟩
    case mUnlock => cases ha; exact ⟨rfl, rfl⟩
    case eLock => split at ha <;> cases ha; exact ⟨rfl, rfl⟩
    case eChk => split at ha <;> cases ha <;> exact ⟨rfl, rfl⟩
    case eDur => cases ha; exact ⟨rfl, rfl⟩
    case eHand =>
      exfalso
      rcases ((hI.post t ht.2).2.2) with h1 | h1
      · exact hon h1.2.2.1
      · exact h1.1 (by rw [hp]; exact Or.inr rfl)
    case eUnlock => cases ha; exact ⟨rfl, rfl⟩
    case rLock => split at ha <;> cases ha; exact ⟨rfl, rfl⟩
    case rRead => cases ha; exact ⟨rfl, rfl⟩
    case rUnlock => cases ha; exact ⟨rfl, rfl⟩
    case rDone => cases ha; exact ⟨rfl, rfl⟩

end reachable

/-- the log only grows, by steps that hold the lock -/
theorem log_only_grows (s s' : St) (a : Act) (ha : act s a = some s') : ∃ x, s'.log = s.log ++ x := by
  cases a with
  | call t op =>
    simp only [act, call] at ha
    cases hp : s.pc t <;> rw [hp] at ha <;> simp only at ha <;> first | cases ha | skip
    cases op <;> simp only at ha <;> cases ha <;> exact ⟨[], by simp⟩
  | step t =>
    simp only [act, step] at ha
    cases hp : s.pc t <;> rw [hp] at ha <;> simp only at ha
    case idle => cases ha
    case mLock => split at ha <;> cases ha; exact ⟨[], by simp⟩
    case mChk => split at ha <;> cases ha <;> exact ⟨[], by simp⟩
    case mWrite m l => split at ha <;> cases ha <;> first | exact ⟨[m], rfl⟩ | exact ⟨[], by simp⟩
    case mUnlock => cases ha; exact ⟨[], by simp⟩
    case eLock => split at ha <;> cases ha; exact ⟨[], by simp⟩
    case eChk => (repeat' split at ha) <;> cases ha <;> exact ⟨[], by simp⟩
    case eDur => split at ha <;> cases ha <;> first | exact ⟨[.dur], rfl⟩ | exact ⟨[], by simp⟩
    case eHand => cases ha; exact ⟨[], by simp⟩
    case eUnlock => cases ha; exact ⟨[], by simp⟩
    case rLock => split at ha <;> cases ha; exact ⟨[], by simp⟩
    case rRead => cases ha; exact ⟨[], by simp⟩
    case rUnlock => cases ha; exact ⟨[], by simp⟩
    case rDone => cases ha; exact ⟨[], by simp⟩

/-- **the refinement check is sound**: a real execution whose events the replay accepts passes only through states of
    the model, so everything above holds of what it computed -/
theorem replay_sound (es : List Ev) (s : St) (h : arun init es = some s) :
    s.nullDerefs = 0 ∧ s.onEnds.length ≤ 1 ∧ (s.endReturned = true → s.onEnds = [some s.log] ∧ s.rcd = none) := by
  obtain ⟨as, h1⟩ := arun_run es init s h
  exact ⟨no_null_deref h1, onend_at_most_once h1, onend_exactly_once_when_end_returned h1⟩

/-- the facts of the source text the step structure stands on (re-extracted from `span.cc` on every run): every member
    function that touches `recordable_` / `has_ended_` (the mutators, `End`, `IsRecording`; at least the nine of ABI v1)
    declares a lock guard on `mu_` at its top level BEFORE the first such use and never releases it early; `End` tests
    and latches `has_ended_` and calls `OnEnd(std::move(recordable_))`, once, inside that same critical section -/
theorem gen_span_lock_facts :
    Gen.spanLockGuardBeforeFirstUse = true ∧ Gen.spanLockHeldToReturn = true ∧ Gen.spanEndHandsOffUnderLock = true ∧
    Gen.spanGuardedFunctions ≥ 9 := by decide

/-! ## Non-vacuity -/

/-- `SetAttribute` (thread 1) racing `End` (thread 0), the mutator gets the lock first: it is in the exported span -/
def raceIn : List Act :=
  [.call 0 .endSpan, .call 1 (.mutate (.attr 7 100)), .step 1, .step 1, .step 1, .step 1,
   .step 0, .step 0, .step 0, .step 0, .step 0]
example : (run init raceIn).map (fun s => (s.onEnds, s.rcd, s.nullDerefs, s.endReturned)) =
    some ([some [.attr 7 100, .dur]], none, 0, true) := by decide

/-- the same race, `End` gets the lock first: the mutator is wholly ignored, `IsRecording` says false afterwards, a
    second `End` does nothing -/
def raceOut : List Act :=
  [.call 0 .endSpan, .call 1 (.mutate (.attr 7 100)), .step 0, .step 0, .step 0, .step 0, .step 0,
   .step 1, .step 1, .step 1, .call 2 .isRec, .step 2, .step 2, .step 2, .call 1 .endSpan, .step 1, .step 1, .step 1]
example : (run init raceOut).map (fun s => (s.onEnds, s.rcd, s.nullDerefs, s.pc 2, s.acq)) =
    some ([some [.dur]], none, 0, .rDone true false, [.dur]) := by decide

/-- the lock excludes: while thread 0 is between its test and the hand-off, thread 1 cannot take a step -/
example : (run init [.call 0 .endSpan, .call 1 (.mutate (.event 1)), .step 0, .step 0, .step 1]) = none := by decide

/-- the hypotheses of the per-thread theorems are reachable -/
example : ∃ as s, run init as = some s ∧ s.pc 1 = .mUnlock (.attr 7 100) true false :=
  ⟨[.call 0 .endSpan, .step 0, .step 0, .step 0, .step 0, .step 0, .call 1 (.mutate (.attr 7 100)), .step 1, .step 1], _, rfl, by decide⟩

end Otel.C04Race
