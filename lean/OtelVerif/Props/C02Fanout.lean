import OtelVerif.Model.Fanout
/-! # C02, the fan-out clause — ForceFlush / Shutdown through the provider

"When ForceFlush … on the provider that owns them returns true, everything … has been passed to the exporter's Export and
the exporter's own ForceFlush has been invoked.  Shutdown of a batch processor (directly, **through its provider**, or by
destruction) … shuts the exporter down exactly once however many times … it is requested, and after it returns no
exporter call is made and later … ForceFlush/Shutdown calls return promptly without effect."

The batch processors themselves are `Otel.C02` (`flush_complete`, `exporter_shutdown_at_most_once`, `shutdown_returned`,
`late_forceflush_returns_false`, `late_shutdown_is_noop`): the `batch` child of `Model/Fanout.lean` is their summary for one
sequential caller.  Here: the layers above, for **every** list of children, every script of child results and every
sequence of provider-level calls.

Which layer latches what (read from the code, proved below):
* `TracerProvider`, `TracerContext`, `MultiSpanProcessor`, `LoggerProvider`, `LoggerContext`, `MultiLogRecordProcessor`
  have **no** latch: every `Shutdown` (and each destructor, some of them twice) reaches every child again
  (`no_layer_latch_witness`).  "Exactly once" at the exporter is provided by the child's own latch: `is_shutdown` of the
  batch processors, `shutdown_latch_` / `is_shutdown_` of the simple processors (`child_inv_run`,
  `exporter_shutdown_exactly_once_through_provider`).
* `MeterContext::shutdown_latch_` is the only latch in a fan-out layer (`meter_shutdown_once`); `MetricReader::Shutdown`
  itself does not latch (`reader_shutdown_not_latched_witness`) and `MetricReader::Collect` is not refused after
  `Shutdown` (`reader_collect_after_shutdown_not_refused`). -/
namespace Otel.C02.Fanout
open Otel.Fanout

/-! ## pointwise relations between the children before and after -/

inductive PW (R : Child → Child → Prop) : List Child → List Child → Prop
  | nil : PW R [] []
  | cons {c c' : Child} {cs cs' : List Child} : R c c' → PW R cs cs' → PW R (c :: cs) (c' :: cs')

theorem PW.length_eq {R} {a b : List Child} (h : PW R a b) : a.length = b.length := by
  induction h with
  | nil => rfl
  | cons _ _ ih => simp [ih]

theorem PW.mono {R S : Child → Child → Prop} (hRS : ∀ c c', R c c' → S c c') {a b : List Child} (h : PW R a b) : PW S a b := by
  induction h with
  | nil => exact .nil
  | cons h1 _ ih => exact .cons (hRS _ _ h1) ih

theorem PW.refl {R : Child → Child → Prop} (hR : ∀ c, R c c) (a : List Child) : PW R a a := by
  induction a with
  | nil => exact .nil
  | cons c cs ih => exact .cons (hR c) ih

theorem PW.comp {R S T : Child → Child → Prop} (hT : ∀ x y z, R x y → S y z → T x z) {a b c : List Child}
    (h1 : PW R a b) (h2 : PW S b c) : PW T a c := by
  induction h1 generalizing c with
  | nil => cases h2; exact .nil
  | cons r _ ih => cases h2 with | cons s h2' => exact .cons (hT _ _ _ r s) (ih h2')

/-- the i-th child after is related to the i-th child before -/
theorem PW.get {R} {a b : List Child} (h : PW R a b) : ∀ (i : Nat) (ha : i < a.length) (hb : i < b.length), R a[i] b[i] := by
  induction h with
  | nil => intro i ha; simp at ha
  | cons r _ ih =>
    intro i ha hb
    cases i with
    | zero => exact r
    | succ j => exact ih j (by simpa using ha) (by simpa using hb)

/-- what holds of every child before and is carried by the relation holds of every child after -/
theorem PW.forall_mem {R} {P Q : Child → Prop} (hPQ : ∀ c c', R c c' → P c → Q c') {a b : List Child} (h : PW R a b)
    (hP : ∀ c ∈ a, P c) : ∀ c' ∈ b, Q c' := by
  induction h with
  | nil => intro c' hc; cases hc
  | cons r _ ih =>
    intro c' hc
    rcases List.mem_cons.mp hc with rfl | hc
    · exact hPQ _ _ r (hP _ (List.mem_cons_self ..))
    · exact ih (fun c hc' => hP c (List.mem_cons_of_mem _ hc')) c' hc

/-! ## the folds: every child is called exactly once, in order, whatever the others return; results are and-ed -/

/-- **every fold calls every child** (exactly once: the i-th child after is the i-th child before after one call) -/
theorem fold_calls_every_child (call : Child → TC → Out) (p : Policy) (k : Clock) (i : Nat) (cs : List Child) :
    PW (fun c c' => ∃ tc, c' = (call c tc).child) cs (foldAll call p k i cs).1 := by
  induction cs generalizing k i with
  | nil => exact .nil
  | cons c cs ih => exact .cons ⟨_, rfl⟩ (ih _ _)

/-- **the result of a fold is the conjunction of the children's results** -/
theorem fold_result (call : Child → TC → Out) (hres : ∀ c tc tc', (call c tc).res = (call c tc').res)
    (p : Policy) (k : Clock) (i : Nat) (cs : List Child) :
    (foldAll call p k i cs).2.1 = cs.all (fun c => (call c .max).res) := by
  induction cs generalizing k i with
  | nil => rfl
  | cons c cs ih =>
    show ((call c (k.tc p)).res && (foldAll call p _ _ cs).2.1) = _
    rw [ih, List.all_cons, hres c (k.tc p) .max]

/-- a fold that returned true: every child was called and returned true -/
theorem fold_sound (call : Child → TC → Out) (p : Policy) (k : Clock) (i : Nat) (cs : List Child)
    (h : (foldAll call p k i cs).2.1 = true) :
    PW (fun c c' => ∃ tc, c' = (call c tc).child ∧ (call c tc).res = true) cs (foldAll call p k i cs).1 := by
  induction cs generalizing k i with
  | nil => exact .nil
  | cons c cs ih =>
    have h' : ((call c (k.tc p)).res && (foldAll call p (k.tick (call c (k.tc p)).slow) (i + 1) cs).2.1) = true := h
    rw [Bool.and_eq_true] at h'
    exact .cons ⟨_, rfl, h'.1⟩ (ih _ _ h'.2)

/-- every event of a fold is an event of one child's call -/
theorem fold_events (call : Child → TC → Out) (p : Policy) (k : Clock) (i : Nat) (cs : List Child) :
    ∀ e ∈ (foldAll call p k i cs).2.2, ∃ c ∈ cs, ∃ tc, e.2 ∈ (call c tc).evs := by
  induction cs generalizing k i with
  | nil => intro e he; cases he
  | cons c cs ih =>
    intro e he
    have he' : e ∈ (call c (k.tc p)).evs.map (fun x => (i, x)) ++ (foldAll call p (k.tick (call c (k.tc p)).slow) (i + 1) cs).2.2 := he
    rcases List.mem_append.mp he' with h1 | h2
    · obtain ⟨x, hx, rfl⟩ := List.mem_map.mp h1
      exact ⟨c, List.mem_cons_self .., _, hx⟩
    · obtain ⟨c', hc', tc, htc⟩ := ih _ _ e h2
      exact ⟨c', List.mem_cons_of_mem _ hc', tc, htc⟩

theorem idx_const (i : Nat) (l : List CEv) : ∀ n ∈ (l.map (fun e => (i, e))).map (·.1), n = i := by
  intro n hn
  obtain ⟨x, hx, rfl⟩ := List.mem_map.mp hn
  obtain ⟨y, _, rfl⟩ := List.mem_map.mp hx
  rfl

theorem idx_const_pairwise (i : Nat) (l : List CEv) : ((l.map (fun e => (i, e))).map (·.1)).Pairwise (· ≤ ·) := by
  induction l with
  | nil => exact List.Pairwise.nil
  | cons e l ih =>
    refine List.Pairwise.cons (fun n hn => ?_) ih
    rw [idx_const i l n hn]; exact Nat.le_refl _

/-- **the children are served in list order**: the events of a fold, read by child number, never go back -/
theorem fold_in_order (call : Child → TC → Out) (p : Policy) (k : Clock) (i : Nat) (cs : List Child) :
    (∀ e ∈ (foldAll call p k i cs).2.2, i ≤ e.1) ∧ ((foldAll call p k i cs).2.2.map (·.1)).Pairwise (· ≤ ·) := by
  induction cs generalizing k i with
  | nil => exact ⟨fun e he => (by cases he), List.Pairwise.nil⟩
  | cons c cs ih =>
    obtain ⟨h1, h2⟩ := ih (k.tick (call c (k.tc p)).slow) (i + 1)
    have hev : (foldAll call p k i (c :: cs)).2.2 =
        (call c (k.tc p)).evs.map (fun e => (i, e)) ++ (foldAll call p (k.tick (call c (k.tc p)).slow) (i + 1) cs).2.2 := rfl
    rw [hev]
    constructor
    · intro e he
      rcases List.mem_append.mp he with h | h
      · obtain ⟨x, _, rfl⟩ := List.mem_map.mp h; exact Nat.le_refl _
      · exact Nat.le_of_succ_le (h1 e h)
    · rw [List.map_append, List.pairwise_append]
      refine ⟨idx_const_pairwise i _, h2, fun a ha b hb => ?_⟩
      rw [idx_const i _ a ha]
      obtain ⟨e, he, rfl⟩ := List.mem_map.mp hb
      exact Nat.le_of_succ_le (h1 e he)

/-- **the events a fold reports for child `j` are exactly the events of that child's one call** (this is what ties the
    canonical line the driver prints, and the harness reproduces, to the children's own logs the theorems speak about) -/
theorem fold_events_of_child (call : Child → TC → Out) (p : Policy) (k : Clock) (i : Nat) (cs : List Child) :
    ∀ (j : Nat) (h : j < cs.length), ∃ tc,
      ((foldAll call p k i cs).2.2.filter (fun e => e.1 == i + j)).map (·.2) = (call cs[j] tc).evs := by
  induction cs generalizing k i with
  | nil => intro j h; simp at h
  | cons c cs ih =>
    intro j h
    have hev : (foldAll call p k i (c :: cs)).2.2 =
        (call c (k.tc p)).evs.map (fun e => (i, e)) ++ (foldAll call p (k.tick (call c (k.tc p)).slow) (i + 1) cs).2.2 := rfl
    have hrest := (fold_in_order call p (k.tick (call c (k.tc p)).slow) (i + 1) cs).1
    rw [hev, List.filter_append, List.map_append]
    cases j with
    | zero =>
      refine ⟨k.tc p, ?_⟩
      have h1 : ((call c (k.tc p)).evs.map (fun e => (i, e))).filter (fun e => e.1 == i + 0) = (call c (k.tc p)).evs.map (fun e => (i, e)) := by
        rw [List.filter_eq_self]; intro e he; obtain ⟨x, _, rfl⟩ := List.mem_map.mp he; simp
      have h2 : ((foldAll call p (k.tick (call c (k.tc p)).slow) (i + 1) cs).2.2).filter (fun e => e.1 == i + 0) = [] := by
        rw [List.filter_eq_nil_iff]; intro e he; have := hrest e he; simp; omega
      rw [h1, h2, List.map_map]
      have h3 : ((fun x : Nat × CEv => x.snd) ∘ fun e => (i, e)) = id := by funext e; rfl
      simp [h3]
    | succ j =>
      obtain ⟨tc, htc⟩ := ih (k.tick (call c (k.tc p)).slow) (i + 1) j (by simpa using h)
      refine ⟨tc, ?_⟩
      have h1 : ((call c (k.tc p)).evs.map (fun e => (i, e))).filter (fun e => e.1 == i + (j + 1)) = [] := by
        rw [List.filter_eq_nil_iff]; intro e he; obtain ⟨x, _, rfl⟩ := List.mem_map.mp he; simp
      have h2 : i + (j + 1) = i + 1 + j := by omega
      rw [h1, h2]; simpa using htc

/-! ## facts about one call at one child (all by cases on the kind and the latch) -/

/-- the kinds whose exporter `Shutdown` sits behind the child's own latch -/
def Latching (c : Child) : Prop := c.kind = .simpleSpan ∨ c.kind = .simpleLog ∨ c.kind = .batch

instance (c : Child) : Decidable (Latching c) := by unfold Latching; infer_instance

macro "child_cases " c:ident : tactic =>
  `(tactic| (rcases $c:ident with ⟨k, fs, ss, l, q, lg⟩; cases k <;> cases l))

theorem flush_res_indep (c : Child) (tc tc' : TC) : (c.flush tc).res = (c.flush tc').res := by
  child_cases c <;> rfl

theorem shutdown_res_indep (c : Child) (tc tc' : TC) : (c.shutdown tc).res = (c.shutdown tc').res := by
  child_cases c <;> rfl

theorem flush_log (c : Child) (tc : TC) : (c.flush tc).child.log = c.log ++ (c.flush tc).evs := by
  child_cases c <;> rfl

theorem shutdown_log (c : Child) (tc : TC) : (c.shutdown tc).child.log = c.log ++ (c.shutdown tc).evs := by
  child_cases c <;> rfl

theorem flush_kind (c : Child) (tc : TC) : (c.flush tc).child.kind = c.kind ∧ (c.flush tc).child.latched = c.latched := by
  child_cases c <;> exact ⟨rfl, rfl⟩

/-- the call is in the child's log with the result it returned, once -/
theorem flush_logged (c : Child) (tc : TC) :
    CEv.flush tc (c.flush tc).res ∈ (c.flush tc).evs ∧ (c.flush tc).evs.countP CEv.isFlush = 1 := by
  child_cases c <;> simp [Child.flush, drainEvs, List.countP_cons, List.countP_append, CEv.isFlush] <;>
    split <;> simp [List.countP_cons, CEv.isFlush]

theorem shutdown_logged (c : Child) (tc : TC) :
    CEv.shutdown tc (c.shutdown tc).res ∈ (c.shutdown tc).evs ∧ (c.shutdown tc).evs.countP CEv.isShutdown = 1 := by
  child_cases c <;> simp [Child.shutdown, drainEvs, List.countP_cons, List.countP_append, CEv.isShutdown] <;>
    split <;> simp [List.countP_cons, CEv.isShutdown]

theorem nFlush_flush (c : Child) (tc : TC) : (c.flush tc).child.nFlush = c.nFlush + 1 := by
  unfold Child.nFlush; rw [flush_log, List.countP_append, (flush_logged c tc).2]

theorem nShutdown_shutdown (c : Child) (tc : TC) : (c.shutdown tc).child.nShutdown = c.nShutdown + 1 := by
  unfold Child.nShutdown; rw [shutdown_log, List.countP_append, (shutdown_logged c tc).2]


/-! ## the child's own latch: its exporter is shut down at most once, whatever is called how often -/

/-- invariant of one child: a latching child's exporter has been shut down exactly as often as its latch says (never
    twice), and a batch child that has been shut down holds no records -/
structure CInv (c : Child) : Prop where
  once : Latching c → c.nXShutdown = (if c.latched then 1 else 0)
  drained : c.kind = .batch → c.latched = true → c.queued = 0

theorem cinv_fresh (k : Kind) (fs : List (Bool × Bool)) (ss : List Bool) : CInv (Child.mk' k fs ss) :=
  ⟨fun _ => rfl, fun _ h => by cases h⟩

/-- one call at one child -/
inductive CStep : Child → Child → Prop
  | flush (c : Child) (tc : TC) : CStep c (c.flush tc).child
  | shutdown (c : Child) (tc : TC) : CStep c (c.shutdown tc).child
  | onEnd (c : Child) : CStep c c.onEnd.child
  | dtor (c : Child) : CStep c c.dtor.child
  | collect (c : Child) : CStep c c.collect.child

/-- any number of calls at one child -/
inductive CSteps : Child → Child → Prop
  | refl (c : Child) : CSteps c c
  | tail {a b c : Child} : CSteps a b → CStep b c → CSteps a c

theorem CSteps.trans {a b c : Child} (h1 : CSteps a b) (h2 : CSteps b c) : CSteps a c := by
  induction h2 with
  | refl => exact h1
  | tail _ s ih => exact .tail ih s

theorem CSteps.one {a b : Child} (h : CStep a b) : CSteps a b := .tail (.refl a) h

macro "cinv_tac" : tactic =>
  `(tactic| (simp_all [Latching, Child.flush, Child.shutdown, Child.onEnd, Child.dtor, Child.collect, Child.nXShutdown, drainEvs,
      List.countP_append, List.countP_cons, CEv.isXShutdown]))

/-- the invariant, the kind and a set latch survive every call -/
theorem cstep_inv {c c' : Child} (s : CStep c c') (h : CInv c) :
    CInv c' ∧ c'.kind = c.kind ∧ (c.latched = true → c'.latched = true) := by
  obtain ⟨h1, h2⟩ := h
  cases s with
  | flush tc =>
    child_cases c <;> refine ⟨⟨?_, ?_⟩, ?_, ?_⟩ <;> cinv_tac <;> (try split) <;> cinv_tac
  | shutdown tc =>
    child_cases c <;> refine ⟨⟨?_, ?_⟩, ?_, ?_⟩ <;> cinv_tac <;> (try split) <;> cinv_tac
  | onEnd =>
    child_cases c <;> refine ⟨⟨?_, ?_⟩, ?_, ?_⟩ <;> cinv_tac
  | dtor =>
    child_cases c <;> refine ⟨⟨?_, ?_⟩, ?_, ?_⟩ <;> cinv_tac <;> (try split) <;> cinv_tac
  | collect =>
    child_cases c <;> refine ⟨⟨?_, ?_⟩, ?_, ?_⟩ <;> cinv_tac

theorem csteps_inv {c c' : Child} (s : CSteps c c') (h : CInv c) :
    CInv c' ∧ c'.kind = c.kind ∧ (c.latched = true → c'.latched = true) := by
  induction s with
  | refl => exact ⟨h, rfl, id⟩
  | tail _ s ih =>
    obtain ⟨i1, k1, l1⟩ := ih
    obtain ⟨i2, k2, l2⟩ := cstep_inv s i1
    exact ⟨i2, k2.trans k1, fun hl => l2 (l1 hl)⟩

/-! ## the layers: each operation is, child by child, a few calls at that child -/

theorem fold_csteps (call : Child → TC → Out) (hstep : ∀ c tc, CStep c (call c tc).child) (p : Policy) (k : Clock) (i : Nat)
    (cs : List Child) : PW CSteps cs (foldAll call p k i cs).1 :=
  (fold_calls_every_child call p k i cs).mono (fun c c' h => by obtain ⟨tc, rfl⟩ := h; exact .one (hstep c tc))

theorem pw_trans {a b c : List Child} (h1 : PW CSteps a b) (h2 : PW CSteps b c) : PW CSteps a c :=
  PW.comp (R := CSteps) (S := CSteps) (T := CSteps) (fun _ _ _ => CSteps.trans) h1 h2

theorem flush_pw (p : Prov) (t : TO) : PW CSteps p.children (p.flush t).1.children :=
  fold_csteps Child.flush CStep.flush _ _ _ _

theorem flush_frame (p : Prov) (t : TO) :
    (p.flush t).1.layer = p.layer ∧ (p.flush t).1.latch = p.latch ∧ (p.flush t).1.alive = p.alive := ⟨rfl, rfl, rfl⟩

/-- `Shutdown` at a layer other than the meter provider is the plain fold -/
theorem shutdown_eq (p : Prov) (t : TO) (hl : p.layer ≠ .meterProvider) :
    p.shutdown t = ({ p with children := (shutdownAll p.layer.shutdownPolicy (Clock.start t) 0 p.children).1 },
      (shutdownAll p.layer.shutdownPolicy (Clock.start t) 0 p.children).2.1,
      (shutdownAll p.layer.shutdownPolicy (Clock.start t) 0 p.children).2.2) := by
  unfold Prov.shutdown; split
  · rename_i h; exact absurd h hl
  · rfl

theorem shutdown_meter_latched (p : Prov) (t : TO) (hl : p.layer = .meterProvider) (h : p.latch = true) :
    p.shutdown t = (p, true, []) := by
  unfold Prov.shutdown; rw [hl]; simp [h]

theorem shutdown_meter_first (p : Prov) (t : TO) (hl : p.layer = .meterProvider) (h : p.latch = false) :
    p.shutdown t = ({ p with children := (shutdownAll .same (Clock.start t) 0 p.children).1, latch := true },
      (shutdownAll .same (Clock.start t) 0 p.children).2.1, (shutdownAll .same (Clock.start t) 0 p.children).2.2) := by
  unfold Prov.shutdown; rw [hl]; simp [h]

theorem shutdown_pw (p : Prov) (t : TO) : PW CSteps p.children (p.shutdown t).1.children := by
  by_cases hl : p.layer = .meterProvider
  · cases h : p.latch
    · rw [shutdown_meter_first p t hl h]; exact fold_csteps Child.shutdown CStep.shutdown _ _ _ _
    · rw [shutdown_meter_latched p t hl h]; exact PW.refl CSteps.refl _
  · rw [shutdown_eq p t hl]; exact fold_csteps Child.shutdown CStep.shutdown _ _ _ _

theorem shutdown_frame (p : Prov) (t : TO) : (p.shutdown t).1.layer = p.layer ∧ (p.shutdown t).1.alive = p.alive := by
  by_cases hl : p.layer = .meterProvider
  · cases h : p.latch
    · rw [shutdown_meter_first p t hl h]; exact ⟨rfl, rfl⟩
    · rw [shutdown_meter_latched p t hl h]; exact ⟨rfl, rfl⟩
  · rw [shutdown_eq p t hl]; exact ⟨rfl, rfl⟩

theorem dtorAll_pw (cs : List Child) : PW CSteps cs (dtorAll cs).1 :=
  fold_csteps (fun c _ => c.dtor) (fun c _ => CStep.dtor c) _ _ _ _

theorem emitAll_pw (cs : List Child) : PW CSteps cs (emitAll cs).1 :=
  fold_csteps (fun c _ => c.onEnd) (fun c _ => CStep.onEnd c) _ _ _ _

theorem destroy_pw (p : Prov) : PW CSteps p.children p.destroy.1.children := by
  unfold Prov.destroy
  split
  · exact pw_trans (shutdown_pw p .max) (dtorAll_pw _)
  · exact pw_trans (pw_trans (shutdown_pw p .max) (shutdown_pw _ .max)) (dtorAll_pw _)
  · exact pw_trans (pw_trans (flush_pw p .max) (shutdown_pw _ .max)) (dtorAll_pw _)
  · exact pw_trans (pw_trans (pw_trans (shutdown_pw p .max) (flush_pw _ .max)) (shutdown_pw _ .max)) (dtorAll_pw _)
  · exact pw_trans (shutdown_pw p .max) (dtorAll_pw _)

theorem destroy_frame (p : Prov) : p.destroy.1.layer = p.layer ∧ p.destroy.1.alive = false := by
  unfold Prov.destroy
  split <;> simp [shutdown_frame, flush_frame]

theorem onChild_pw (f : Child → Out) (hf : ∀ c, CStep c (f c).child) :
    ∀ (i j : Nat) (cs : List Child) (r : List Child × Bool × Evs), onChild f i j cs = some r → PW CSteps cs r.1 := by
  intro i j cs
  induction cs generalizing i j with
  | nil => intro r h; cases i <;> simp [onChild] at h
  | cons c cs ih =>
    intro r h
    cases i with
    | zero => simp [onChild] at h; subst h; exact .cons (.one (hf c)) (PW.refl CSteps.refl _)
    | succ i =>
      simp only [onChild, Option.map_eq_some_iff] at h
      obtain ⟨r', hr', rfl⟩ := h
      exact .cons (.refl c) (ih _ _ _ hr')

/-- **every provider-level call is, at each child, a sequence of calls at that child**; layer kept -/
theorem step_pw (p : Prov) (op : Op) : PW CSteps p.children (p.step op).1.children ∧ (p.step op).1.layer = p.layer := by
  unfold Prov.step
  split
  · exact ⟨PW.refl CSteps.refl _, rfl⟩
  · cases op with
    | flush t => exact ⟨flush_pw p t, rfl⟩
    | shutdown t => exact ⟨shutdown_pw p t, (shutdown_frame p t).1⟩
    | emit =>
      dsimp only; split
      · exact ⟨PW.refl CSteps.refl _, rfl⟩
      · exact ⟨emitAll_pw _, rfl⟩
    | destroy => exact ⟨destroy_pw p, (destroy_frame p).1⟩
    | collect i =>
      dsimp only; split
      · exact ⟨PW.refl CSteps.refl _, rfl⟩
      · split
        · exact ⟨PW.refl CSteps.refl _, rfl⟩
        · rename_i r hr; exact ⟨onChild_pw _ CStep.collect _ _ _ _ hr, rfl⟩
    | readerShutdown i =>
      dsimp only; split
      · exact ⟨PW.refl CSteps.refl _, rfl⟩
      · split
        · exact ⟨PW.refl CSteps.refl _, rfl⟩
        · rename_i r hr; exact ⟨onChild_pw _ (fun c => CStep.shutdown c .max) _ _ _ _ hr, rfl⟩
    | readerFlush i =>
      dsimp only; split
      · exact ⟨PW.refl CSteps.refl _, rfl⟩
      · split
        · exact ⟨PW.refl CSteps.refl _, rfl⟩
        · rename_i r hr; exact ⟨onChild_pw _ (fun c => CStep.flush c .max) _ _ _ _ hr, rfl⟩

theorem after_nil (p : Prov) : p.after [] = p := rfl
theorem after_cons (p : Prov) (op : Op) (ops : List Op) : p.after (op :: ops) = (p.step op).1.after ops := rfl

theorem after_append (p : Prov) (a b : List Op) : p.after (a ++ b) = (p.after a).after b := by
  induction a generalizing p with
  | nil => rfl
  | cons op a ih => rw [List.cons_append, after_cons, after_cons, ih]

theorem run_pw (p : Prov) (ops : List Op) : PW CSteps p.children (p.after ops).children ∧ (p.after ops).layer = p.layer := by
  induction ops generalizing p with
  | nil => exact ⟨PW.refl CSteps.refl _, rfl⟩
  | cons op ops ih =>
    rw [after_cons]
    obtain ⟨h1, h2⟩ := step_pw p op
    obtain ⟨h3, h4⟩ := ih (p.step op).1
    exact ⟨pw_trans h1 h3, h4.trans h2⟩

/-- **the child invariant along every sequence of provider-level calls**, for every layer, every list of children, every
    script: each latching child's exporter has been shut down once if its latch is set and never otherwise — so never twice -/
theorem child_inv_run (p : Prov) (ops : List Op) (h : ∀ c ∈ p.children, CInv c) : ∀ c ∈ (p.after ops).children, CInv c :=
  PW.forall_mem (R := CSteps) (P := CInv) (Q := CInv) (fun _ _ s hc => (csteps_inv s hc).1) (run_pw p ops).1 h

/-- **at most once**, whatever is requested how often: provider `Shutdown`s, destruction, in any order -/
theorem exporter_shutdown_at_most_once_through_provider (l : Layer) (cs : List Child) (ops : List Op)
    (hfresh : ∀ c ∈ cs, CInv c) : ∀ c ∈ ((Prov.init l cs).after ops).children, Latching c → c.nXShutdown ≤ 1 := by
  intro c hc hl
  have := (child_inv_run (Prov.init l cs) ops hfresh c hc).once hl
  rw [this]; split <;> simp

/-! ## ForceFlush through the layers -/

/-- **ForceFlush at any layer calls every child's ForceFlush exactly once** — also when an earlier child fails, also on
    a shut-down meter provider -/
theorem fanout_flush_calls_every_child (p : Prov) (t : TO) :
    PW (fun c c' => ∃ tc, c' = (c.flush tc).child ∧ c'.nFlush = c.nFlush + 1) p.children (p.flush t).1.children :=
  (fold_calls_every_child Child.flush _ _ _ _).mono (fun c c' h => by
    obtain ⟨tc, rfl⟩ := h; exact ⟨tc, rfl, nFlush_flush c tc⟩)

/-- **ForceFlush at the layer returned true ⇒ every child's ForceFlush was called and returned true** (and the call is in
    the child's log with that result) -/
theorem fanout_flush_sound (p : Prov) (t : TO) (h : (p.flush t).2.1 = true) :
    PW (fun c c' => ∃ tc, c' = (c.flush tc).child ∧ (c.flush tc).res = true ∧ CEv.flush tc true ∈ (c.flush tc).evs ∧
      c'.log = c.log ++ (c.flush tc).evs) p.children (p.flush t).1.children :=
  (fold_sound Child.flush _ _ _ _ h).mono (fun c c' hc => by
    obtain ⟨tc, rfl, hr⟩ := hc
    refine ⟨tc, rfl, hr, ?_, flush_log c tc⟩
    have := (flush_logged c tc).1; rwa [hr] at this)

/-- a child's ForceFlush that returned true: the exporter's own ForceFlush was invoked (simple, batch), and a batch child
    was not shut down, passed everything it held to Export and holds nothing any more -/
theorem flush_true_child (c : Child) (tc : TC) (h : (c.flush tc).res = true) :
    (Latching c → ∃ r, CEv.xFlush r ∈ (c.flush tc).evs) ∧
    (c.kind = .batch → c.latched = false ∧ (c.flush tc).child.queued = 0 ∧ CEv.xFlush true ∈ (c.flush tc).evs ∧
      (c.queued ≠ 0 → CEv.xExport c.queued ∈ (c.flush tc).evs)) := by
  child_cases c <;> simp_all [Latching, Child.flush, drainEvs]

/-- **provider-level completeness**: the layer's ForceFlush returned true ⇒ at every simple / batch child the exporter's
    ForceFlush was invoked in this call, and every batch child (not shut down) handed everything it held to Export.
    (`Otel.C02.flush_complete` is what makes "held" mean "ended before the call began" for the real batch processor.) -/
theorem fanout_flush_complete_batch (p : Prov) (t : TO) (h : (p.flush t).2.1 = true) :
    PW (fun c c' => ∃ tc, c' = (c.flush tc).child ∧ (Latching c → ∃ r, CEv.xFlush r ∈ (c.flush tc).evs) ∧
      (c.kind = .batch → c.latched = false ∧ c'.queued = 0 ∧ CEv.xFlush true ∈ (c.flush tc).evs ∧
        (c.queued ≠ 0 → CEv.xExport c.queued ∈ (c.flush tc).evs))) p.children (p.flush t).1.children :=
  (fanout_flush_sound p t h).mono (fun c c' hc => by
    obtain ⟨tc, rfl, hr, _, _⟩ := hc
    exact ⟨tc, rfl, (flush_true_child c tc hr).1, (flush_true_child c tc hr).2⟩)

/-- the result of the layer's ForceFlush is the conjunction of the children's results … -/
theorem flush_result (p : Prov) (t : TO) : (p.flush t).2.1 = p.children.all (fun c => (c.flush .max).res) :=
  fold_result Child.flush flush_res_indep _ _ _ _

/-- … so **one failing child makes it false** (D02: `MultiSpanProcessor` or-ed the results into `true`) -/
theorem fanout_flush_false_of_failing_child (p : Prov) (t : TO) (c : Child) (hc : c ∈ p.children)
    (hf : ∀ tc, (c.flush tc).res = false) : (p.flush t).2.1 = false := by
  rw [flush_result]
  cases h : p.children.all (fun c => (c.flush .max).res)
  · rfl
  · rw [List.all_eq_true] at h; have := h c hc; rw [hf] at this; cases this

/-! ## Shutdown through the layers -/

/-- the layer forwards this `Shutdown` to its children: every layer but a meter provider whose latch is set -/
def Forwards (p : Prov) : Prop := p.layer ≠ .meterProvider ∨ p.latch = false

theorem shutdown_fold (p : Prov) (t : TO) (h : Forwards p) : ∃ pol,
    (p.shutdown t).1.children = (shutdownAll pol (Clock.start t) 0 p.children).1 ∧
    (p.shutdown t).2.1 = (shutdownAll pol (Clock.start t) 0 p.children).2.1 ∧
    (p.shutdown t).2.2 = (shutdownAll pol (Clock.start t) 0 p.children).2.2 := by
  by_cases hl : p.layer = .meterProvider
  · rcases h with h | h
    · exact absurd hl h
    · rw [shutdown_meter_first p t hl h]; exact ⟨_, rfl, rfl, rfl⟩
  · rw [shutdown_eq p t hl]; exact ⟨_, rfl, rfl, rfl⟩

/-- **Shutdown at a layer calls every child's Shutdown exactly once**, whatever the other children return -/
theorem fanout_shutdown_calls_every_child (p : Prov) (t : TO) (h : Forwards p) :
    PW (fun c c' => ∃ tc, c' = (c.shutdown tc).child ∧ c'.nShutdown = c.nShutdown + 1) p.children (p.shutdown t).1.children := by
  obtain ⟨pol, h1, _, _⟩ := shutdown_fold p t h
  rw [h1]
  exact (fold_calls_every_child Child.shutdown _ _ _ _).mono (fun c c' h => by
    obtain ⟨tc, rfl⟩ := h; exact ⟨tc, rfl, nShutdown_shutdown c tc⟩)

/-- **Shutdown at the layer returned true ⇒ every child's Shutdown returned true**; and its result is the conjunction of
    the children's results, so one failing child makes it false (D02 / D81: both multi-processors or-ed into `true`) -/
theorem fanout_shutdown_result (p : Prov) (t : TO) (h : Forwards p) :
    ((p.shutdown t).2.1 = true → PW (fun c c' => ∃ tc, c' = (c.shutdown tc).child ∧ (c.shutdown tc).res = true ∧
        CEv.shutdown tc true ∈ (c.shutdown tc).evs) p.children (p.shutdown t).1.children) ∧
    (p.shutdown t).2.1 = p.children.all (fun c => (c.shutdown .max).res) := by
  obtain ⟨pol, h1, h2, _⟩ := shutdown_fold p t h
  rw [h1, h2]
  refine ⟨fun hr => (fold_sound Child.shutdown _ _ _ _ hr).mono (fun c c' hc => ?_), fold_result Child.shutdown shutdown_res_indep _ _ _ _⟩
  obtain ⟨tc, rfl, hr⟩ := hc
  refine ⟨tc, rfl, hr, ?_⟩
  have := (shutdown_logged c tc).1; rwa [hr] at this

theorem shutdown_child_latches (c : Child) (tc : TC) :
    (c.kind ≠ .raw → (c.shutdown tc).child.latched = true) ∧ (c.kind = .batch → CInv c → (c.shutdown tc).child.queued = 0) := by
  constructor
  · child_cases c <;> simp [Child.shutdown]
  · intro hk hi; have := hi.drained hk
    child_cases c <;> simp_all [Child.shutdown]

/-- after a forwarded `Shutdown` every child with a latch has it set -/
theorem fanout_shutdown_latches_every_child (p : Prov) (t : TO) (h : Forwards p) :
    ∀ c' ∈ (p.shutdown t).1.children, Latching c' → c'.latched = true := by
  have hpw := (fanout_shutdown_calls_every_child p t h)
  refine PW.forall_mem (P := fun _ => True) (fun c c' hc _ hl => ?_) hpw (fun _ _ => trivial)
  obtain ⟨tc, rfl, _⟩ := hc
  have hk : ((c.shutdown tc).child.kind = c.kind) := by child_cases c <;> rfl
  refine (shutdown_child_latches c tc).1 ?_
  intro hraw; rcases hl with hl | hl | hl <;> (rw [hk, hraw] at hl; cases hl)

/-- **Shutdown through the provider drains**: after a forwarded `Shutdown` no batch child holds a record -/
theorem batch_shutdown_drains_through_provider (p : Prov) (t : TO) (h : Forwards p) (hinv : ∀ c ∈ p.children, CInv c) :
    ∀ c' ∈ (p.shutdown t).1.children, c'.kind = .batch → c'.queued = 0 := by
  refine PW.forall_mem (P := CInv) (fun c c' hc hi hb => ?_) (fanout_shutdown_calls_every_child p t h) hinv
  obtain ⟨tc, rfl, _⟩ := hc
  have hk : ((c.shutdown tc).child.kind = c.kind) := by child_cases c <;> rfl
  exact (shutdown_child_latches c tc).2 (hk ▸ hb) hi

/-! ## exactly once, through the provider -/

/-- kind and a set latch survive every call (no invariant needed) -/
theorem cstep_mono {c c' : Child} (s : CStep c c') : c'.kind = c.kind ∧ (c.latched = true → c'.latched = true) := by
  cases s with
  | flush tc => child_cases c <;> simp [Child.flush]
  | shutdown tc => child_cases c <;> simp [Child.shutdown]
  | onEnd => child_cases c <;> simp [Child.onEnd]
  | dtor => child_cases c <;> simp [Child.dtor]
  | collect => child_cases c <;> simp [Child.collect]

theorem csteps_mono {c c' : Child} (s : CSteps c c') : c'.kind = c.kind ∧ (c.latched = true → c'.latched = true) := by
  induction s with
  | refl => exact ⟨rfl, id⟩
  | tail _ s ih => exact ⟨(cstep_mono s).1.trans ih.1, fun h => (cstep_mono s).2 (ih.2 h)⟩

theorem latching_of_csteps {c c' : Child} (s : CSteps c c') (h : Latching c') : Latching c := by
  unfold Latching at *; rw [(csteps_mono s).1] at h; exact h

/-- all latching children latched: kept by whatever is called afterwards -/
theorem all_latched_pw {a b : List Child} (h : PW CSteps a b) (ha : ∀ c ∈ a, Latching c → c.latched = true) :
    ∀ c ∈ b, Latching c → c.latched = true :=
  PW.forall_mem (R := CSteps) (P := fun c => Latching c → c.latched = true) (Q := fun c => Latching c → c.latched = true)
    (fun _ _ s hc hl => (csteps_mono s).2 (hc (latching_of_csteps s hl))) h ha

/-- **exactly once after a Shutdown through the provider**: any calls before, a `Shutdown` at a live tracer / logger
    provider or multi-processor, any calls after (more Shutdowns, ForceFlushes, destruction): every simple / batch child's
    exporter has been shut down exactly once.  The latch that makes it so is the child's own. -/
theorem exporter_shutdown_exactly_once_after_shutdown (l : Layer) (hl : l ≠ .meterProvider) (cs : List Child)
    (hfresh : ∀ c ∈ cs, CInv c) (before after : List Op) (t : TO) (halive : ((Prov.init l cs).after before).alive = true) :
    ∀ c ∈ ((Prov.init l cs).after (before ++ .shutdown t :: after)).children, Latching c → c.nXShutdown = 1 := by
  intro c hc hlat
  have hinv := child_inv_run (Prov.init l cs) (before ++ .shutdown t :: after) hfresh c hc
  rw [after_append, after_cons] at hc
  have hlayer : ((Prov.init l cs).after before).layer = l := (run_pw _ _).2
  have hstep : (((Prov.init l cs).after before).step (.shutdown t)).1 = (((Prov.init l cs).after before).shutdown t).1 := by
    simp [Prov.step, halive]
  rw [hstep] at hc
  have hfw : Forwards ((Prov.init l cs).after before) := Or.inl (by rw [hlayer]; exact hl)
  have h1 := fanout_shutdown_latches_every_child _ t hfw
  have h2 := all_latched_pw (run_pw _ after).1 h1 c hc hlat
  rw [hinv.once hlat, h2]; rfl

/-- destruction of a span / log layer leaves every latching child latched -/
theorem destroy_latches (p : Prov) (hl : p.layer ≠ .meterProvider) :
    ∀ c ∈ p.destroy.1.children, Latching c → c.latched = true := by
  have fw : ∀ q : Prov, q.layer = p.layer → Forwards q := fun q hq => Or.inl (by rw [hq]; exact hl)
  unfold Prov.destroy
  split
  · exact all_latched_pw (dtorAll_pw _) (fanout_shutdown_latches_every_child _ _ (fw _ rfl))
  · exact all_latched_pw (dtorAll_pw _) (fanout_shutdown_latches_every_child _ _ (fw _ (shutdown_frame _ _).1))
  · exact all_latched_pw (dtorAll_pw _) (fanout_shutdown_latches_every_child _ _ (fw _ rfl))
  · exact all_latched_pw (dtorAll_pw _) (fanout_shutdown_latches_every_child _ _ (fw _ (shutdown_frame _ _).1))
  · rename_i h; exact absurd h hl

theorem step_dead (p : Prov) (op : Op) (h : p.alive = false) : (p.step op).1 = p := by simp [Prov.step, h]

theorem step_alive (p : Prov) (op : Op) (h : op ≠ .destroy) : (p.step op).1.alive = p.alive := by
  unfold Prov.step
  split
  · rfl
  · cases op with
    | flush t => rfl
    | shutdown t => exact (shutdown_frame p t).2
    | emit => dsimp only; split <;> rfl
    | destroy => exact absurd rfl h
    | collect i => dsimp only; split <;> (try split) <;> rfl
    | readerShutdown i => dsimp only; split <;> (try split) <;> rfl
    | readerFlush i => dsimp only; split <;> (try split) <;> rfl

/-- a destroyed span / log layer has all its latching children latched -/
theorem dead_latched (l : Layer) (hl : l ≠ .meterProvider) (cs : List Child) (ops : List Op) :
    ((Prov.init l cs).after ops).alive = false →
      ∀ c ∈ ((Prov.init l cs).after ops).children, Latching c → c.latched = true := by
  suffices H : ∀ (p : Prov), p.layer = l → (p.alive = false → ∀ c ∈ p.children, Latching c → c.latched = true) →
      ((p.after ops).alive = false → ∀ c ∈ (p.after ops).children, Latching c → c.latched = true) from
    H (Prov.init l cs) rfl (fun h => by cases h)
  induction ops with
  | nil => intro p _ h; exact h
  | cons op ops ih =>
    intro p hp h
    rw [after_cons]
    refine ih _ ((step_pw p op).2.trans hp) ?_
    cases ha : p.alive
    · rw [step_dead p op ha]; intro _; exact h ha
    · by_cases hd : op = .destroy
      · subst hd
        have : (p.step .destroy).1 = p.destroy.1 := by simp [Prov.step, ha]
        rw [this]; intro _; exact destroy_latches p (by rw [hp]; exact hl)
      · intro hdead; rw [step_alive p op hd, ha] at hdead; cases hdead

/-- **exactly once by destruction, however many Shutdowns came before**: once a tracer / logger provider or
    multi-processor has been destroyed — after any sequence of `ForceFlush` / `Shutdown` / records — every simple / batch
    child's exporter has been shut down exactly once (`TracerProvider`: its destructor, then `~MultiSpanProcessor`, then
    the child's own destructor each ask again; the child's latch absorbs them) -/
theorem exporter_shutdown_exactly_once_through_provider (l : Layer) (hl : l ≠ .meterProvider) (cs : List Child)
    (hfresh : ∀ c ∈ cs, CInv c) (ops : List Op) (hdead : ((Prov.init l cs).after ops).alive = false) :
    ∀ c ∈ ((Prov.init l cs).after ops).children, Latching c → c.nXShutdown = 1 := by
  intro c hc hlat
  rw [(child_inv_run (Prov.init l cs) ops hfresh c hc).once hlat, dead_latched l hl cs ops hdead c hc hlat]; rfl

/-- the span and log layers have **no latch of their own**: two `Shutdown`s and the destruction of a `TracerProvider`
    reach a (latch-less) child's `Shutdown` four times, of a `LoggerProvider` four times (plus a late `ForceFlush`), of a
    bare `MultiSpanProcessor` / `MultiLogRecordProcessor` three times; a `MeterProvider` forwards one -/
theorem no_layer_latch_witness :
    ([Layer.tracerProvider, .loggerProvider, .multiSpan, .multiLog, .meterProvider].map fun l =>
      (((Prov.init l [Child.mk' .raw [] []]).after [.shutdown .max, .shutdown .max, .destroy]).children.map Child.nShutdown))
    = [[4], [4], [3], [3], [1]] := by decide

example : ∀ c ∈ [Child.mk' .batch [] [true], Child.mk' .simpleSpan [] []], CInv c := by
  intro c hc; simp at hc; rcases hc with rfl | rfl <;> exact cinv_fresh _ _ _
example : (((Prov.init .tracerProvider [Child.mk' .batch [] [true], Child.mk' .simpleSpan [] []]).after
    [.emit, .shutdown .max, .shutdown .zero, .flush .max, .destroy]).children.map Child.nXShutdown) = [1, 1] := by decide

/-! ## late calls: ForceFlush / Shutdown after Shutdown -/

theorem late_shutdown_child (c : Child) (tc : TC) (hl : Latching c) (h : c.latched = true) :
    (c.shutdown tc).res = true ∧ ∀ e ∈ (c.shutdown tc).evs, e.isX = false := by
  child_cases c <;> simp_all [Latching, Child.shutdown, CEv.isX, CEv.isXShutdown, CEv.isXFlush, CEv.isXExport]

theorem late_flush_batch_child (c : Child) (tc : TC) (hk : c.kind = .batch) (h : c.latched = true) :
    (c.flush tc).res = false ∧ ∀ e ∈ (c.flush tc).evs, e.isX = false := by
  child_cases c <;> simp_all [Child.flush, CEv.isX, CEv.isXShutdown, CEv.isXFlush, CEv.isXExport]

/-- **a later Shutdown** at a span / log layer whose simple / batch children have all been shut down: every child is asked
    again (no layer latch), each answers true without touching its exporter, the layer returns true and **no exporter
    call is made**.  (A meter provider: `meter_late_shutdown_returns_true`.) -/
theorem late_calls_after_shutdown (p : Prov) (t : TO) (hl : p.layer ≠ .meterProvider)
    (h : ∀ c ∈ p.children, Latching c ∧ c.latched = true) :
    (p.shutdown t).2.1 = true ∧ ∀ e ∈ (p.shutdown t).2.2, e.2.isX = false := by
  rw [shutdown_eq p t hl]
  constructor
  · show (foldAll Child.shutdown _ _ _ _).2.1 = true
    rw [fold_result Child.shutdown shutdown_res_indep, List.all_eq_true]
    intro c hc; exact (late_shutdown_child c .max (h c hc).1 (h c hc).2).1
  · intro e he
    obtain ⟨c, hc, tc, hin⟩ := fold_events Child.shutdown _ _ _ _ e he
    exact (late_shutdown_child c tc (h c hc).1 (h c hc).2).2 _ hin

/-- **a later ForceFlush** reaching shut-down batch children: each returns false, **no exporter call is made**, and
    (with the D02 fix) the layer returns false as soon as there is one such child -/
theorem late_batch_no_exporter_call (p : Prov) (t : TO) (h : ∀ c ∈ p.children, c.kind = .batch ∧ c.latched = true) :
    (∀ e ∈ (p.flush t).2.2, e.2.isX = false) ∧ (p.children ≠ [] → (p.flush t).2.1 = false) := by
  constructor
  · intro e he
    obtain ⟨c, hc, tc, hin⟩ := fold_events Child.flush _ _ _ _ e he
    exact (late_flush_batch_child c tc (h c hc).1 (h c hc).2).2 _ hin
  · intro hne
    cases hcs : p.children with
    | nil => exact absurd hcs hne
    | cons c cs =>
      have hc : c ∈ p.children := by rw [hcs]; exact List.mem_cons_self ..
      exact fanout_flush_false_of_failing_child p t c hc (fun tc => (late_flush_batch_child c tc (h c hc).1 (h c hc).2).1)

/-- the simple processors are different, as coded: `ForceFlush` does not look at the latch, a late `ForceFlush` (for a
    `LoggerProvider` the one its own destruction makes after `Shutdown`) **does reach the exporter's `ForceFlush`** -/
theorem late_simple_flush_reaches_exporter_witness :
    (((Prov.init .loggerProvider [Child.mk' .simpleLog [] []]).run [.shutdown .max, .flush .max, .destroy]).2.map
      fun o => o.2.map (·.2)) =
    [[.xShutdown true, .shutdown .nsmax true], [.xFlush true, .flush .nsmax true],
     [.shutdown .nsmax true, .xFlush true, .flush .nsmax true, .shutdown .nsmax true, .dtor]] := by decide

/-! ## the meter provider: `MeterContext::shutdown_latch_`, readers -/

/-- a later `Shutdown` of a shut-down meter provider returns true and reaches no reader -/
theorem meter_late_shutdown_returns_true (p : Prov) (t : TO) (hl : p.layer = .meterProvider) (h : p.latch = true) :
    p.shutdown t = (p, true, []) := shutdown_meter_latched p t hl h

/-- calls made at the provider (not at a reader behind its back) -/
def providerLevel : Op → Prop
  | .readerShutdown _ => False
  | _ => True

theorem shutdown_latch_mono (p : Prov) (t : TO) (h : p.latch = true) : (p.shutdown t).1.latch = true := by
  by_cases hl : p.layer = .meterProvider
  · rw [shutdown_meter_latched p t hl h]; exact h
  · rw [shutdown_eq p t hl]; exact h

theorem destroy_latch_mono (p : Prov) (h : p.latch = true) : p.destroy.1.latch = true := by
  unfold Prov.destroy
  split
  · exact shutdown_latch_mono _ _ h
  · exact shutdown_latch_mono _ _ (shutdown_latch_mono _ _ h)
  · exact shutdown_latch_mono (p.flush .max).1 _ h
  · exact shutdown_latch_mono ((p.shutdown .max).1.flush .max).1 _ (shutdown_latch_mono _ _ h)
  · exact shutdown_latch_mono _ _ h

/-- no call resets `MeterContext::shutdown_latch_` -/
theorem step_latch_mono (p : Prov) (op : Op) (h : p.latch = true) : (p.step op).1.latch = true := by
  unfold Prov.step
  split
  · exact h
  · cases op with
    | flush t => exact h
    | shutdown t => exact shutdown_latch_mono p t h
    | emit => dsimp only; split <;> exact h
    | destroy => exact destroy_latch_mono p h
    | collect i => dsimp only; split <;> (try split) <;> exact h
    | readerShutdown i => dsimp only; split <;> (try split) <;> exact h
    | readerFlush i => dsimp only; split <;> (try split) <;> exact h

theorem step_shutdown_alive (p : Prov) (t : TO) (ha : p.alive = true) : (p.step (.shutdown t)).1 = (p.shutdown t).1 := by
  simp [Prov.step, ha]

theorem step_destroy_alive (p : Prov) (ha : p.alive = true) : (p.step .destroy).1 = p.destroy.1 := by
  simp [Prov.step, ha]

theorem nShutdown_of_log {c c' : Child} {evs : List CEv} (h : c'.log = c.log ++ evs) (h0 : evs.countP CEv.isShutdown = 0) :
    c'.nShutdown = c.nShutdown := by
  unfold Child.nShutdown; rw [h, List.countP_append, h0]; rfl

theorem nShutdown_flush (c : Child) (tc : TC) : (c.flush tc).child.nShutdown = c.nShutdown := by
  child_cases c <;> simp [Child.flush, Child.nShutdown, drainEvs, List.countP_append, CEv.isShutdown] <;>
    split <;> simp [List.countP_cons, CEv.isShutdown]

theorem nShutdown_dtor (c : Child) (hk : c.kind = .reader) : c.dtor.child.nShutdown = c.nShutdown := by
  child_cases c <;> simp_all [Child.dtor, Child.nShutdown, List.countP_append, CEv.isShutdown]

theorem nShutdown_collect (c : Child) : c.collect.child.nShutdown = c.nShutdown := by
  simp [Child.collect, Child.nShutdown, List.countP_append, CEv.isShutdown]

theorem onChild_forall (f : Child → Out) (P : Child → Prop) (hf : ∀ c, P c → P (f c).child) :
    ∀ (i j : Nat) (cs : List Child) (r : List Child × Bool × Evs), onChild f i j cs = some r → (∀ c ∈ cs, P c) → ∀ c ∈ r.1, P c := by
  intro i j cs
  induction cs generalizing i j with
  | nil => intro r h; cases i <;> simp [onChild] at h
  | cons c cs ih =>
    intro r h hP
    cases i with
    | zero =>
      simp [onChild] at h; subst h
      intro c' hc'
      rcases List.mem_cons.mp hc' with rfl | hc'
      · exact hf c (hP c (List.mem_cons_self ..))
      · exact hP c' (List.mem_cons_of_mem _ hc')
    | succ i =>
      simp only [onChild, Option.map_eq_some_iff] at h
      obtain ⟨r', hr', rfl⟩ := h
      intro c' hc'
      rcases List.mem_cons.mp hc' with rfl | hc'
      · exact hP _ (List.mem_cons_self ..)
      · exact ih _ _ _ hr' (fun c hc => hP c (List.mem_cons_of_mem _ hc)) c' hc'

/-- meter invariant: all children are readers, and each reader's `OnShutDown` has run once if the context latch is set,
    never otherwise; a destroyed provider has its latch set -/
structure MInv (p : Prov) : Prop where
  layer : p.layer = .meterProvider
  readers : ∀ c ∈ p.children, c.kind = .reader ∧ c.nShutdown = (if p.latch then 1 else 0)
  dead : p.alive = false → p.latch = true

theorem minv_flush (p : Prov) (t : TO) (h : MInv p) : MInv (p.flush t).1 := by
  refine ⟨h.layer, ?_, h.dead⟩
  refine PW.forall_mem (P := fun c => c.kind = .reader ∧ c.nShutdown = (if p.latch then 1 else 0)) (fun c c' hc hP => ?_)
    (fanout_flush_calls_every_child p t) h.readers
  obtain ⟨tc, rfl, _⟩ := hc
  exact ⟨(flush_kind c tc).1.trans hP.1, (nShutdown_flush c tc).trans hP.2⟩

theorem minv_shutdown (p : Prov) (t : TO) (h : MInv p) : MInv (p.shutdown t).1 ∧ (p.shutdown t).1.latch = true := by
  cases hlatch : p.latch
  · rw [shutdown_meter_first p t h.layer hlatch]
    refine ⟨⟨h.layer, ?_, fun _ => rfl⟩, rfl⟩
    refine PW.forall_mem (P := fun c => c.kind = .reader ∧ c.nShutdown = (if p.latch then 1 else 0)) (fun c c' hc hP => ?_)
      (fold_calls_every_child Child.shutdown _ _ _ _) h.readers
    obtain ⟨tc, rfl⟩ := hc
    have hk : (c.shutdown tc).child.kind = c.kind := by child_cases c <;> rfl
    refine ⟨hk.trans hP.1, ?_⟩
    rw [nShutdown_shutdown, hP.2, hlatch]; rfl
  · rw [shutdown_meter_latched p t h.layer hlatch]; exact ⟨h, hlatch⟩

theorem minv_step (p : Prov) (op : Op) (hop : providerLevel op) (h : MInv p) : MInv (p.step op).1 := by
  cases ha : p.alive
  · rw [step_dead p op ha]; exact h
  · unfold Prov.step; rw [ha]; simp only [Bool.not_true, Bool.false_eq_true, if_false]
    cases op with
    | flush t => exact minv_flush p t h
    | shutdown t => exact (minv_shutdown p t h).1
    | emit => simp [h.layer]; exact h
    | destroy =>
      show MInv p.destroy.1
      have hd : p.destroy.1 = { (p.shutdown .max).1 with children := (dtorAll (p.shutdown .max).1.children).1, alive := false } := by
        unfold Prov.destroy; rw [h.layer]
      rw [hd]
      obtain ⟨hm, hl⟩ := minv_shutdown p .max h
      refine ⟨hm.layer, ?_, fun _ => hl⟩
      refine PW.forall_mem (P := fun c => c.kind = .reader ∧ c.nShutdown = (if (p.shutdown .max).1.latch then 1 else 0))
        (fun c c' hc hP => ?_) (fold_calls_every_child (fun c _ => c.dtor) _ _ _ _) hm.readers
      obtain ⟨tc, rfl⟩ := hc
      have hk : c.dtor.child.kind = c.kind := by child_cases c <;> rfl
      exact ⟨hk.trans hP.1, (nShutdown_dtor c hP.1).trans hP.2⟩
    | collect i =>
      simp only [h.layer, ne_eq, not_true_eq_false, if_false]
      split
      · exact h
      · rename_i r hr
        refine ⟨rfl, ?_, fun hd => by cases hd⟩
        exact onChild_forall Child.collect (fun c => c.kind = .reader ∧ c.nShutdown = (if p.latch then 1 else 0))
          (fun c hP => ⟨hP.1, (nShutdown_collect c).trans hP.2⟩) _ _ _ _ hr h.readers
    | readerShutdown i => exact absurd hop id
    | readerFlush i =>
      simp only [h.layer, ne_eq, not_true_eq_false, if_false]
      split
      · exact h
      · rename_i r hr
        refine ⟨rfl, ?_, fun hd => by cases hd⟩
        exact onChild_forall (fun c => c.flush .max) (fun c => c.kind = .reader ∧ c.nShutdown = (if p.latch then 1 else 0))
          (fun c hP => ⟨(flush_kind c .max).1.trans hP.1, (nShutdown_flush c .max).trans hP.2⟩) _ _ _ _ hr h.readers

/-- **`MeterContext::Shutdown` forwards once**: for every list of readers and every sequence of calls made at the provider
    (`ForceFlush`, `Shutdown`, direct `Collect` / `ForceFlush` of a reader, destruction, in any order and number), each reader's
    `OnShutDown` has run exactly once if the context latch is set and never otherwise; the latch is set by the first
    `Shutdown` and by destruction.  The latch is `MeterContext::shutdown_latch_` — `MetricReader::Shutdown` has none. -/
theorem meter_shutdown_once (readers : List Child) (hr : ∀ c ∈ readers, c.kind = .reader ∧ c.log = []) (ops : List Op)
    (hops : ∀ op ∈ ops, providerLevel op) :
    let p := (Prov.init .meterProvider readers).after ops
    (∀ c ∈ p.children, c.nShutdown = (if p.latch then 1 else 0)) ∧ (p.alive = false → p.latch = true) ∧
    ((∃ t, Op.shutdown t ∈ ops) → p.latch = true) := by
  have h0 : MInv (Prov.init .meterProvider readers) :=
    ⟨rfl, fun c hc => ⟨(hr c hc).1, by simp [Child.nShutdown, (hr c hc).2, Prov.init]⟩, fun h => by cases h⟩
  suffices H : ∀ (p : Prov), MInv p → MInv (p.after ops) ∧ ((p.latch = true ∨ (p.alive = true ∧ ∃ t, Op.shutdown t ∈ ops)) → (p.after ops).latch = true) by
    obtain ⟨hm, hl⟩ := H _ h0
    exact ⟨fun c hc => (hm.readers c hc).2, hm.dead, fun ht => hl (Or.inr ⟨rfl, ht⟩)⟩
  induction ops with
  | nil => intro p hp; exact ⟨hp, fun h => by rcases h with h | ⟨_, t, ht⟩; exact h; cases ht⟩
  | cons op ops ih =>
    intro p hp
    have hstep := minv_step p op (hops op (List.mem_cons_self ..)) hp
    obtain ⟨h1, h2⟩ := ih (fun o ho => hops o (List.mem_cons_of_mem _ ho)) _ hstep
    rw [after_cons]
    refine ⟨h1, fun h => h2 ?_⟩
    -- the latch is never reset, and a Shutdown at a live provider sets it
    have hkeep : p.latch = true → (p.step op).1.latch = true := step_latch_mono p op
    rcases h with h | ⟨ha, t, ht⟩
    · exact Or.inl (hkeep h)
    · rcases List.mem_cons.mp ht with rfl | ht
      · left; rw [step_shutdown_alive p t ha]; exact (minv_shutdown p t hp).2
      · cases hl : p.latch
        · by_cases hd : op = .destroy
          · subst hd; left; exact hstep.dead (by rw [step_destroy_alive p ha]; exact (destroy_frame p).2)
          · right; exact ⟨by rw [step_alive p op hd]; exact ha, t, ht⟩
        · exact Or.inl (hkeep hl)

/-- **`MeterContext::ForceFlush` reaches every reader**, whatever the others return and whether or not the provider has been
    shut down (no look at the latch; `MetricReader::ForceFlush` only warns) -/
theorem meter_flush_every_reader (p : Prov) (t : TO) (_hl : p.layer = .meterProvider) :
    PW (fun c c' => ∃ tc, c' = (c.flush tc).child ∧ c'.nFlush = c.nFlush + 1) p.children (p.flush t).1.children :=
  fanout_flush_calls_every_child p t

/-- `MeterProvider::ForceFlush` returned true ⇒ every reader's `OnForceFlush` returned true -/
theorem meter_flush_sound (p : Prov) (t : TO) (_hl : p.layer = .meterProvider) (h : (p.flush t).2.1 = true) :
    PW (fun c c' => ∃ tc, c' = (c.flush tc).child ∧ (c.flush tc).res = true ∧ CEv.flush tc true ∈ (c.flush tc).evs ∧
      c'.log = c.log ++ (c.flush tc).evs) p.children (p.flush t).1.children :=
  fanout_flush_sound p t h

/-- `MetricReader::Shutdown` called at the reader is **not** latched: every call runs `OnShutDown` again (a provider
    `Shutdown`, a direct one before and one after it: three) -/
theorem reader_shutdown_not_latched_witness :
    ((Prov.init .meterProvider [Child.mk' .reader [] []]).after [.readerShutdown 0, .shutdown .max, .readerShutdown 0, .shutdown .max]).children.map
      Child.nShutdown = [3] := by decide

/-- `MetricReader::Collect` after `Shutdown` is **not refused**: the flag is read for a warning only, `Produce` and the
    callback run (as coded: "Continue with warning, and let pull and push MetricReader state machine handle this").  What
    keeps a periodic reader from exporting after its `Shutdown` is its `OnShutDown` joining the worker, not this class. -/
theorem reader_collect_after_shutdown_not_refused (c : Child) (_hk : c.kind = .reader) (_h : c.latched = true) :
    c.collect.res = true ∧ c.collect.evs = [.collect] ∧ c.collect.child.log = c.log ++ [.collect] := ⟨rfl, rfl, rfl⟩

/-! ## the time later children are handed -/

/-- `MultiLogRecordProcessor` and `MeterContext::ForceFlush` hand later children what remains of the caller's timeout: once
    a short deadline has passed **every later child is handed zero** — which the batch processors and the periodic reader
    read as "no limit" (`timeout_steady <= 0` → `duration::max()`); an unbounded timeout stays unbounded, a zero timeout
    is zero for everybody; `MultiSpanProcessor` and `MeterContext::Shutdown` pass the caller's value on unchanged -/
theorem later_children_get_zero_after_deadline (k : Clock) (slow : Bool) :
    (k.t = .short → k.expired = true → (k.tick slow).tc .remaining = .zero ∧ (k.tick slow).expired = true) ∧
    (k.t = .short → slow = true → (k.tick slow).tc .remaining = .zero) ∧
    (k.t = .zero → k.tc .remaining = .zero ∧ (k.tick slow).tc .remaining = .zero) ∧
    (k.t = .max → (k.tick slow).tc .remaining = .huge) ∧
    (k.tc .same = (Clock.start k.t).tc .same ∧ (k.tick slow).tc .same = k.tc .same) := by
  rcases k with ⟨t, f, e⟩
  cases t <;> cases f <;> cases e <;> cases slow <;> simp [Clock.tick, Clock.tc, Clock.start]

example : (flushAll .remaining (Clock.start .short) 0
    [Child.mk' .raw [(true, true)] [], Child.mk' .raw [] [], Child.mk' .raw [] []]).2.2.map (·.2) =
    [.flush .short true, .flush .zero true, .flush .zero true] := by decide

/-! ## the atomic latch, from however many threads -/
namespace Latch
open Otel.Fanout.Latch

/-- nothing forwarded while the latch is clear; once it is set there is exactly one winner, who has either not forwarded
    yet or forwarded once and returned, and everybody else has not begun or has returned without forwarding -/
def Inv (s : St) : Prop :=
  (s.latch = false → s.forwarded = 0 ∧ ∀ i, s.pc i = .start) ∧
  (s.latch = true → ∃ w, ((s.pc w = .won ∧ s.forwarded = 0) ∨ (s.pc w = .ret true ∧ s.forwarded = 1)) ∧
    ∀ i, i ≠ w → (s.pc i = .start ∨ s.pc i = .ret false))

theorem upd_same (f : Nat → PC) (i : Nat) (v : PC) : upd f i v i = v := by simp [upd]
theorem upd_other (f : Nat → PC) (i j : Nat) (v : PC) (h : j ≠ i) : upd f i v j = f j := by simp [upd, h]

theorem step_start_free (s : St) (i : Nat) (hpc : s.pc i = .start) (hl : s.latch = false) :
    step s i = { s with latch := true, pc := upd s.pc i .won } := by simp [step, hpc, hl]
theorem step_start_set (s : St) (i : Nat) (hpc : s.pc i = .start) (hl : s.latch = true) :
    step s i = { s with pc := upd s.pc i (.ret false) } := by simp [step, hpc, hl]
theorem step_won (s : St) (i : Nat) (hpc : s.pc i = .won) :
    step s i = { s with forwarded := s.forwarded + 1, pc := upd s.pc i (.ret true) } := by simp [step, hpc]
theorem step_ret (s : St) (i : Nat) (b : Bool) (hpc : s.pc i = .ret b) : step s i = s := by simp [step, hpc]

theorem inv_step (s : St) (i : Nat) (h : Inv s) : Inv (step s i) := by
  obtain ⟨h0, h1⟩ := h
  cases hpc : s.pc i with
  | start =>
    cases hl : s.latch with
    | false =>
      -- caller i wins
      obtain ⟨hf, hall⟩ := h0 hl
      rw [step_start_free s i hpc hl]
      refine ⟨fun h => absurd h (by simp), fun _ => ⟨i, Or.inl ⟨upd_same .., hf⟩, fun j hj => Or.inl ?_⟩⟩
      show upd s.pc i .won j = .start
      rw [upd_other _ _ _ _ hj]; exact hall j
    | true =>
      -- caller i loses: returns without forwarding
      obtain ⟨w, hw, hrest⟩ := h1 hl
      rw [step_start_set s i hpc hl]
      have hiw : i ≠ w := by
        intro e; subst e; rcases hw with ⟨hw, _⟩ | ⟨hw, _⟩ <;> (rw [hpc] at hw; cases hw)
      refine ⟨fun h => absurd (show s.latch = false from h) (by simp [hl]), fun _ => ⟨w, ?_, fun j hj => ?_⟩⟩
      · show (upd s.pc i (.ret false) w = .won ∧ _) ∨ (upd s.pc i (.ret false) w = .ret true ∧ _)
        rw [upd_other _ _ _ _ (Ne.symm hiw)]; exact hw
      · show upd s.pc i (.ret false) j = .start ∨ upd s.pc i (.ret false) j = .ret false
        by_cases hji : j = i
        · subst hji; right; exact upd_same ..
        · rw [upd_other _ _ _ _ hji]; exact hrest j hj
  | won =>
    rw [step_won s i hpc]
    cases hl : s.latch with
    | false => have := (h0 hl).2 i; rw [hpc] at this; cases this
    | true =>
      obtain ⟨w, hw, hrest⟩ := h1 hl
      have hiw : i = w := by
        apply Classical.byContradiction; intro hne
        rcases hrest i hne with h | h <;> (rw [hpc] at h; cases h)
      subst hiw
      have hf : s.forwarded = 0 := by
        rcases hw with ⟨_, hf⟩ | ⟨hw, _⟩
        · exact hf
        · rw [hpc] at hw; cases hw
      refine ⟨fun h => absurd h (by simp),
        fun _ => ⟨i, Or.inr ⟨upd_same .., by show s.forwarded + 1 = 1; rw [hf]⟩, fun j hj => ?_⟩⟩
      show upd s.pc i (.ret true) j = .start ∨ upd s.pc i (.ret true) j = .ret false
      rw [upd_other _ _ _ _ hj]; exact hrest j hj
  | ret b => rw [step_ret s i b hpc]; exact ⟨h0, h1⟩

theorem inv_run (sched : List Nat) : Inv (run sched) := by
  unfold run
  suffices H : ∀ s, Inv s → Inv (sched.foldl step s) from
    H init ⟨fun _ => ⟨rfl, fun _ => rfl⟩, fun h => by cases h⟩
  induction sched with
  | nil => intro s h; exact h
  | cons i rest ih => intro s h; exact ih _ (inv_step s i h)

/-- **the latch forwards at most once, from however many threads, under every interleaving**; once the caller that forwarded
    has returned it has been forwarded exactly once; the callers that lost never forward -/
theorem latch_forwards_once (sched : List Nat) :
    (run sched).forwarded ≤ 1 ∧
    (∀ i, (run sched).pc i = .ret true → (run sched).forwarded = 1) ∧
    (∀ i j, (run sched).pc i = .ret true → (run sched).pc j = .ret true → i = j) := by
  obtain ⟨h0, h1⟩ := inv_run sched
  cases hl : (run sched).latch with
  | false =>
    obtain ⟨hf, hall⟩ := h0 hl
    refine ⟨by rw [hf]; exact Nat.zero_le _, fun i hi => ?_, fun i _ hi _ => ?_⟩ <;> (rw [hall i] at hi; cases hi)
  | true =>
    obtain ⟨w, hw, hrest⟩ := h1 hl
    have hwin : ∀ i, (run sched).pc i = .ret true → i = w := by
      intro i hi
      apply Classical.byContradiction; intro hne
      rcases hrest i hne with h | h <;> (rw [hi] at h; cases h)
    refine ⟨?_, fun i hi => ?_, fun i j hi hj => (hwin i hi).trans (hwin j hj).symm⟩
    · rcases hw with ⟨_, hf⟩ | ⟨_, hf⟩ <;> rw [hf] <;> decide
    · have := hwin i hi; subst this
      rcases hw with ⟨hw, _⟩ | ⟨_, hf⟩
      · rw [hi] at hw; cases hw
      · exact hf

/-- … but there is no mutex (unlike the batch processors' `shutdown_m`): **a caller that lost the latch can return before
    the exporter has been shut down** — caller 0 wins, caller 1 finds the latch set and returns, nothing forwarded yet -/
theorem loser_returns_before_forwarding_witness :
    (run [0, 1]).pc 1 = .ret false ∧ (run [0, 1]).pc 0 = .won ∧ (run [0, 1]).forwarded = 0 := by decide

example : (run [0, 1, 0, 2]).forwarded = 1 ∧ (run [0, 1, 0, 2]).pc 0 = .ret true ∧ (run [0, 1, 0, 2]).pc 2 = .ret false := by decide

end Latch

end Otel.C02.Fanout
