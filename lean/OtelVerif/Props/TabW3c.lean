import OtelVerif.Model.TabHex
import OtelVerif.Gen.TabHex
import OtelVerif.Lemmas.Tab
/-! # The model equals the code's graph (`Gen/TabHex.lean`), third part: acceptance of the version field of `traceparent` —
    every byte in either position of the version beside `0`, every hex digit beside `f` / `F` / `1`, and the `-00` / `0` suffixes
    for the versions around `00`, `ff`, `fe`.  See `Props/TabHex.lean`. -/
namespace Otel.Tab
open Otel

theorem tab_tpVersion : ∀ p ∈ Gen.Tab.tpVersion, TabModel.tpVersion p.1 = p.2 := graph_of_all _ _ (by decide +kernel)

end Otel.Tab
