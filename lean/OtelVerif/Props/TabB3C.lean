import OtelVerif.Model.TabB3
import OtelVerif.Gen.TabB3
import OtelVerif.Lemmas.Tab
/-! # The model equals the code's graph (`Gen/TabB3.lean`), third part: the flags field of `uber-trace-id` through `JaegerPropagator::Extract` -/
namespace Otel.Tab
open Otel

theorem tab_jaegerExtractFlag1 : ∀ b : UInt8, TabModel.jaegerExtractFlag1 b = Gen.Tab.jaegerExtractFlag1 b := forall_byte _ (by decide +kernel)
theorem tab_jaegerExtractFlagByte : ∀ b : UInt8, TabModel.jaegerExtractFlagByte b = Gen.Tab.jaegerExtractFlagByte b := forall_byte _ (by decide +kernel)

end Otel.Tab
