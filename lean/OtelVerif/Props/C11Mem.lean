import OtelVerif.Lemmas.RelAcqSpin
import OtelVerif.Lemmas.RelAcqSlot
import OtelVerif.Lemmas.RingStale
import OtelVerif.Lemmas.RelAcqHeadTail
import OtelVerif.Lemmas.Pigeon
/-! # C11, weak-memory part: the spin lock and the ring's slot hand-off under the C++ memory orders actually written

`Props/C11.lean` proves C11 of sequentially consistent models.  The sources use `relaxed` / `acquire` / `release`
(`Gen/MemOrder.lean`, re-extracted on every run).  This module proves, on the view-based release/acquire memory of
`Model/RelAcq.lean` - **every interleaving, every choice of which (possibly stale) message a load reads, any number of
threads, no bound on steps** -

* (a) the spin-lock client (`Model/RelAcqSpin.lean`): no data race on the plain cell, mutual exclusion, and every
  critical section reads exactly what the previous one wrote;
* (b) the slot hand-off (`Model/RelAcqSlot.lean`): whoever gets a pointer out of a slot by `exchange` reads the payload
  without a data race and sees what the producer wrote, the producer's own undo path included;
* (c) `gen_orders_sufficient`: the orders in the source satisfy the preconditions of (a), (b) and of
  `headtail_pairs_ordered` (every pair (tail, head) that `Add` reads has `tail ≤ head`); and what the SC theorems need of
  the loads of `head_` / `tail_` in `Add` (`Model/RingStale.lean`): nothing for safety, a visibility assumption for the
  failure justification.

Each of (a), (b) comes with kernel-checked executions showing that a weakened order does produce a data race. -/
namespace Otel.C11Mem
open Otel Otel.RelAcq

/-! ## (c) the orders in the source are the ones the proofs need -/

/-- `SpinLockMutex`: both `flag_.exchange` acquire or stronger, `unlock`'s store release or stronger -/
theorem gen_spin_orders_sufficient : Spin.genOrders.ok = true := by decide
/-- `AtomicUniquePtr`: `SwapIfNull`'s successful compare_exchange release or stronger, the exchanges of `Swap` / `Reset`
    acquire or stronger -/
theorem gen_slot_orders_sufficient : Slot.genOrders.ok = true := by decide
/-- `CircularBuffer`: `tail_ += n` release or stronger, `Add`'s load of `tail_` acquire or stronger -/
theorem gen_headtail_orders_sufficient : HT.genOrders.ok = true := by decide

/-- both `flag_.exchange` are acquire or stronger and `unlock`'s store is release or stronger; `SwapIfNull`'s successful
    compare_exchange is release or stronger and the exchanges of `Swap` / `Reset` are acquire or stronger; `tail_ += n` is
    release or stronger and `Add`'s load of `tail_` acquire or stronger.  Weakening any of them in the source makes the
    corresponding `decide` above fail. -/
theorem gen_orders_sufficient : Spin.genOrders.ok = true ∧ Slot.genOrders.ok = true ∧ HT.genOrders.ok = true :=
  ⟨gen_spin_orders_sufficient, gen_slot_orders_sufficient, gen_headtail_orders_sufficient⟩

/-- the orders the source has at the time of writing (the demonstrations and witnesses below use these fixed records, not
    the generated ones, so that a *strengthened* order in the source changes nothing but `Gen/MemOrder.lean`) -/
def spinSrc : Spin.Orders := { tryLoad := .rlx, tryXchg := .acq, lockXchg := .acq, unlockSt := .rel }
def slotSrc : Slot.Orders := { casOk := .rel, casFail := .rlx, swapX := .sc, resetX := .sc }

example : spinSrc.ok = true ∧ slotSrc.ok = true := by decide
/-- `ok` is monotone: it only asks for "at least acquire" / "at least release" -/
example : ({ tryLoad := .sc, tryXchg := .sc, lockXchg := .acqRel, unlockSt := .sc } : Spin.Orders).ok = true ∧
    ({ casOk := .sc, casFail := .acq, swapX := .acq, resetX := .acqRel } : Slot.Orders).ok = true := by decide

/-! ## (a) the spin-lock client -/

section spin
open Spin
variable {o : Spin.Orders} (hok : o.ok = true) {acts : List Spin.Act} {s : Spin.St} (h : Spin.run o Spin.init acts = some s)
include hok h

/-- **no data race is ever flagged** on the plain cell -/
theorem spin_no_data_race : s.m.race = false := (Spin.inv_run o hok _ _ acts Spin.inv_init h).noRace

/-- **mutual exclusion** holds on release/acquire memory too -/
theorem spin_mutual_exclusion (p q : Nat) (hp : Holds s p) (hq : Holds s q) : p = q :=
  (Spin.inv_run o hok _ _ acts Spin.inv_init h).unique p q hp hq

/-- a thread in the critical section has seen **every** access to the cell so far (its view of the cell is the cell's
    access clock): the happens-before edge unlock → lock is there -/
theorem spin_holder_view_current (p : Nat) (hp : Holds s p) : cv s.m p cellL = (s.m.na cellL).clk :=
  (Spin.inv_run o hok _ _ acts Spin.inv_init h).holderV p hp

/-- **the cell behaves sequentially**: the completed critical sections (newest first) are chained - each read the
    value the one before it wrote (the first one the initial 0) - and the cell holds what the newest one wrote -/
theorem spin_cell_sequential : Chained s.hist ∧ (s.m.na cellL).val = lastWritten s.hist :=
  ⟨(Spin.inv_run o hok _ _ acts Spin.inv_init h).chained, (Spin.inv_run o hok _ _ acts Spin.inv_init h).cellVal⟩

/-- no lost update: the cell counts the completed critical sections -/
theorem spin_no_lost_update : (s.m.na cellL).val = s.hist.length := by
  have hI := Spin.inv_run o hok _ _ acts Spin.inv_init h
  rw [hI.cellVal, hI.counts]

/-- the read of a critical section returns exactly what the previous critical section wrote -/
theorem spin_reads_previous_write (p : Nat) (s' : Spin.St) (hs : Spin.step o s (.csRead p) = some s') :
    s'.pcs p = .csWrite (lastWritten s.hist) := by
  have hI := Spin.inv_run o hok _ _ acts Spin.inv_init h
  simp only [Spin.step] at hs
  split at hs
  · cases hs
    simp only [Spin.setPc, Ring.upd_same, naRead_val]
    rw [hI.cellVal]
  · cases hs

end spin

/-- (a) for the orders in the source -/
theorem spin_gen_race_free (acts : List Spin.Act) (s : Spin.St) (h : Spin.run Spin.genOrders Spin.init acts = some s) :
    s.m.race = false ∧ (∀ p q, Spin.Holds s p → Spin.Holds s q → p = q) ∧ Spin.Chained s.hist ∧
      (s.m.na Spin.cellL).val = s.hist.length :=
  ⟨spin_no_data_race gen_orders_sufficient.1 h, spin_mutual_exclusion gen_orders_sufficient.1 h,
   (spin_cell_sequential gen_orders_sufficient.1 h).1, spin_no_lost_update gen_orders_sufficient.1 h⟩

/-- the hypothesis is satisfiable: three threads, two critical sections; thread 1's `lock()` exchange fails while
    thread 0 holds the lock; thread 2 gets in through `try_lock` after a **stale** test load (message 0 of `flag_`,
    although four messages exist) -/
def spinDemo : List Spin.Act :=
  [.begin 0 false, .xchg 0, .csRead 0, .begin 1 false, .xchg 1, .csWrite 0, .unlock 0,
   .begin 2 true, .load 2 0, .xchg 2, .csRead 2, .csWrite 2, .unlock 2]

example : (Spin.run spinSrc Spin.init spinDemo).map (fun s => (s.m.race, s.hist, (s.m.na Spin.cellL).val)) =
    some (false, [(1, 2), (0, 1)], 2) := by decide

/-- a stale test load misleads `try_lock` only as far as its `exchange`: with the lock held (latest message `true`)
    thread 2 still reads message 0 (`false`) and goes on to the exchange, which reads the latest message and fails -/
example : ((Spin.run spinSrc Spin.init [.begin 0 false, .xchg 0, .begin 2 true, .load 2 0]).map
    (fun s => (s.m.latestVal Spin.flagL, s.pcs 2))) = some (1, .txchg) := by decide
example : ((Spin.run spinSrc Spin.init [.begin 0 false, .xchg 0, .begin 2 true, .load 2 0, .xchg 2]).map
    (fun s => (s.pcs 0, s.pcs 2))) = some (.csRead, .idle) := by decide
/-- coherence: a thread that has exchanged cannot read an older message afterwards -/
example : (Spin.run spinSrc Spin.init [.begin 0 false, .xchg 0, .begin 1 false, .xchg 1, .begin 1 true, .load 1 0]).isNone = true := by decide

/-- the hypothesis of `spin_gen_race_free` is satisfiable by the same schedule (enabledness does not depend on the orders) -/
example : (Spin.run Spin.genOrders Spin.init spinDemo).isSome = true := by decide

/-! ### the orders matter: weakened orders race (kernel-checked executions) -/

def spinRacy : List Spin.Act :=
  [.begin 0 false, .xchg 0, .csRead 0, .csWrite 0, .unlock 0, .begin 1 false, .xchg 1, .csRead 1]

/-- `unlock` with a relaxed store: the next holder's read of the cell races with the previous holder's write -/
theorem spin_relaxed_unlock_witness :
    (Spin.run { spinSrc with unlockSt := .rlx } Spin.init spinRacy).map (fun s => s.m.race) = some true := by decide

/-- `lock()`'s exchange relaxed -/
theorem spin_relaxed_lock_witness :
    (Spin.run { spinSrc with lockXchg := .rlx } Spin.init spinRacy).map (fun s => s.m.race) = some true := by decide

/-- `try_lock()`'s exchange relaxed -/
theorem spin_relaxed_trylock_witness :
    (Spin.run { spinSrc with tryXchg := .rlx } Spin.init
      [.begin 0 false, .xchg 0, .csRead 0, .csWrite 0, .unlock 0, .begin 1 true, .load 1 2, .xchg 1, .csRead 1]).map
      (fun s => s.m.race) = some true := by decide

/-- hence race freedom is **false** for the weakened orders: the theorem above is not vacuous and its hypothesis `ok`
    cannot be dropped -/
theorem spin_weakened_not_race_free :
    ¬ (∀ (o : Spin.Orders) (acts : List Spin.Act) (s : Spin.St), Spin.run o Spin.init acts = some s → s.m.race = false) := by
  intro hall
  cases hr : Spin.run { spinSrc with unlockSt := .rlx } Spin.init spinRacy with
  | none => have := spin_relaxed_unlock_witness; rw [hr] at this; cases this
  | some s =>
    have h1 := hall _ _ s hr
    have h2 := spin_relaxed_unlock_witness
    rw [hr] at h2
    simp only [Option.map_some, Option.some.injEq] at h2
    rw [h1] at h2; cases h2

/-- mutual exclusion itself does not depend on the orders (it only needs the atomicity of `exchange`): in the racy run
    both threads were never inside together - the race is on the data, through the missing happens-before edge -/
example : (Spin.run { spinSrc with unlockSt := .rlx } Spin.init spinRacy).map (fun s => (s.pcs 0, s.pcs 1)) =
    some (.idle, .csWrite 1) := by decide

/-! ## (b) the slot hand-off of the ring buffer -/

section slot
open Slot
variable {o : Slot.Orders} (hok : o.ok = true) {acts : List Slot.Act} {s : Slot.St} (h : Slot.run o Slot.init acts = some s)
include hok h

/-- **no data race** on any payload, whoever ends up with the pointer -/
theorem slot_no_data_race : s.m.race = false := (Slot.inv_run o hok _ _ acts Slot.inv_init h).noRace

/-- **every read of a payload** - by a taker that exchanged the pointer out of a slot, by the producer on its undo path,
    by the caller of a failed `Add` - **sees what the producer wrote** -/
theorem slot_reads_initialised (t e v : Nat) (hx : (t, e, v) ∈ s.seen) : v = content e :=
  (Slot.inv_run o hok _ _ acts Slot.inv_init h).seenOk _ hx

/-- a thread that has an element in hand (in particular right after the `exchange` that gave it the pointer) has seen
    every access to its payload so far -/
theorem slot_holder_view_current (t e : Nat) (ht : holdsEl (s.pcs t) = some e) :
    cv s.m t (payL e) = (s.m.na (payL e)).clk := (Slot.inv_run o hok _ _ acts Slot.inv_init h).holdV t e ht

/-- an element is in at most one place: one thread's hands or one slot -/
theorem slot_single_owner (t t' e i j : Nat) :
    (holdsEl (s.pcs t) = some e → holdsEl (s.pcs t') = some e → t = t') ∧
    (holdsEl (s.pcs t) = some e → s.m.latestVal (slotL i) ≠ ptr e) ∧
    (s.m.latestVal (slotL i) = ptr e → s.m.latestVal (slotL j) = ptr e → i = j) :=
  let hI := Slot.inv_run o hok _ _ acts Slot.inv_init h
  ⟨hI.holdUniq t t' e, fun ht => hI.holdNoSlot t e i ht, hI.slotUniq i j e⟩

end slot

/-- (b) for the orders in the source -/
theorem slot_gen_race_free (acts : List Slot.Act) (s : Slot.St) (h : Slot.run Slot.genOrders Slot.init acts = some s) :
    s.m.race = false ∧ ∀ t e v, (t, e, v) ∈ s.seen → v = Slot.content e :=
  ⟨slot_no_data_race gen_orders_sufficient.2.1 h, slot_reads_initialised gen_orders_sufficient.2.1 h⟩

/-- satisfiable, with both paths: producer 0 publishes element 0 into slot 0, its `head_` CAS fails, it takes the
    element back (`undo`), reads it, publishes it again into slot 1 and commits; thread 1 takes it out with `Reset`, reads
    and destroys it.  Producer 2's element 1 is published and taken with `Swap`. -/
def slotDemo : List Slot.Act :=
  [.start 0, .init 0, .casOk 0 0, .undo 0, .chk 0, .start 2, .init 2, .casFail 2 0 0 true, .casOk 0 1, .commit 0,
   .take 1 1 true, .tread 1, .casOk 2 0, .commit 2, .tdel 1, .take 1 0 false, .tread 1, .tdel 1]

example : (Slot.run slotSrc Slot.init slotDemo).map (fun s => (s.m.race, s.seen)) =
    some (false, [(1, 1, 2), (1, 0, 1), (0, 0, 1)]) := by decide

example : (Slot.run Slot.genOrders Slot.init slotDemo).isSome = true := by decide

def slotRacy : List Slot.Act := [.start 0, .init 0, .casOk 0 0, .commit 0, .take 1 0 false, .tread 1]

/-- the slot CAS relaxed: the taker's read of the payload races with the producer's initialisation -/
theorem slot_relaxed_cas_witness :
    (Slot.run { slotSrc with casOk := .rlx } Slot.init slotRacy).map (fun s => s.m.race) = some true := by decide

/-- the taking exchange relaxed (`Swap`) -/
theorem slot_relaxed_swap_witness :
    (Slot.run { slotSrc with swapX := .rlx } Slot.init slotRacy).map (fun s => s.m.race) = some true := by decide

/-- the taking exchange relaxed (`Reset`) -/
theorem slot_relaxed_reset_witness :
    (Slot.run { slotSrc with resetX := .rlx } Slot.init
      [.start 0, .init 0, .casOk 0 0, .commit 0, .take 1 0 true, .tread 1]).map (fun s => s.m.race) = some true := by decide

theorem slot_weakened_not_race_free :
    ¬ (∀ (o : Slot.Orders) (acts : List Slot.Act) (s : Slot.St), Slot.run o Slot.init acts = some s → s.m.race = false) := by
  intro hall
  cases hr : Slot.run { slotSrc with casOk := .rlx } Slot.init slotRacy with
  | none => have := slot_relaxed_cas_witness; rw [hr] at this; cases this
  | some s =>
    have h1 := hall _ _ s hr
    have h2 := slot_relaxed_cas_witness
    rw [hr] at h2
    simp only [Option.map_some, Option.some.injEq] at h2
    rw [h1] at h2; cases h2

/-- the producer's own undo path needs no order at all (it reads its own write): even with every order relaxed, a
    producer that publishes, undoes and reads its element back does not race -/
example : (Slot.run { casOk := .rlx, casFail := .rlx, swapX := .rlx, resetX := .rlx } Slot.init
    [.start 0, .init 0, .casOk 0 0, .undo 0, .chk 0]).map (fun s => (s.m.race, s.seen)) = some (false, [(0, 0, 1)]) := by decide

/-! ## the pairs (tail, head) that `Add` can read (`Model/RelAcqHeadTail.lean`)

`Add` computes `head - tail` in `uint64_t`; a pair with `head < tail` would wrap around.  Both loads may be stale, but the
consumer writes `tail_ = v` (release) only after it has read `head_ ≥ v`, and an acquire load of that `tail_` message
brings the consumer's view of `head_` along: whatever `head_` message the producer reads next is at least as new. -/

section headtail
open HT
variable {o : HT.Orders} (hok : o.ok = true) {acts : List HT.Act} {s : HT.St} (h : HT.run o HT.init acts = some s)
include hok h

/-- **every pair `Add` reads has `tail ≤ head`**, for every interleaving, every read choice, any number of producers -/
theorem headtail_pairs_ordered (t hd : Nat) (hx : (t, hd) ∈ s.pairs) : t ≤ hd :=
  (HT.inv_run o hok _ _ acts HT.inv_init h).pairsOk _ hx

/-- message `k` of `head_` has value `k`: a stale load of `head_` returns an earlier count of commits, never garbage -/
theorem headtail_head_messages_count (k : Nat) (msg : Msg) (hk : (s.m.atom headL)[k]? = some msg) : msg.val = k :=
  (HT.inv_run o hok _ _ acts HT.inv_init h).headIdx k msg hk

end headtail

theorem headtail_gen_pairs_ordered (acts : List HT.Act) (s : HT.St) (h : HT.run HT.genOrders HT.init acts = some s)
    (t hd : Nat) (hx : (t, hd) ∈ s.pairs) : t ≤ hd := headtail_pairs_ordered gen_orders_sufficient.2.2 h t hd hx

def htSrc : HT.Orders := { addLoadTail := .sc, addLoadHead := .sc, headCas := .rel, faddTail := .sc, peekLoadHead := .sc }

/-- producer 1 commits one element, the consumer consumes it (`tail_ = 1`), producer 2 reads the new `tail_ = 1` and then
    a **stale** `head_` - which the acquire load of `tail_` rules out: the action is not enabled -/
def htRun : List HT.Act := [.pLdTail 1 0, .pLdHead 1 0, .pCas 1, .cLdHead 1, .cFadd 1, .pLdTail 2 1, .pLdHead 2 0]

example : (HT.run htSrc HT.init htRun).isNone = true := by decide
example : (HT.run htSrc HT.init (htRun.take 6 ++ [.pLdHead 2 1])).map (fun s => s.pairs) = some [(1, 1), (0, 0)] := by decide
example : (HT.run HT.genOrders HT.init (htRun.take 6 ++ [.pLdHead 2 1])).isSome = true := by decide
/-- staleness that is allowed: producer 2 reads the old `tail_ = 0` and the old `head_ = 0` after all that -/
example : (HT.run htSrc HT.init (htRun.take 5 ++ [.pLdTail 2 0, .pLdHead 2 0])).map (fun s => s.pairs) = some [(0, 0), (0, 0)] := by decide

/-- `Add`'s load of `tail_` relaxed: the same schedule now reads the pair (tail, head) = (1, 0) -/
theorem headtail_relaxed_tail_load_witness :
    (HT.run { htSrc with addLoadTail := .rlx } HT.init htRun).map (fun s => s.pairs) = some [(1, 0), (0, 0)] := by decide

/-- `tail_ += n` relaxed: the same -/
theorem headtail_relaxed_fadd_witness :
    (HT.run { htSrc with faddTail := .rlx } HT.init htRun).map (fun s => s.pairs) = some [(1, 0), (0, 0)] := by decide

theorem headtail_weakened_not_ordered :
    ¬ (∀ (o : HT.Orders) (acts : List HT.Act) (s : HT.St), HT.run o HT.init acts = some s → ∀ x ∈ s.pairs, x.1 ≤ x.2) := by
  intro hall
  cases hr : HT.run { htSrc with addLoadTail := .rlx } HT.init htRun with
  | none => have := headtail_relaxed_tail_load_witness; rw [hr] at this; cases this
  | some s =>
    have h1 := hall _ _ s hr
    have h2 := headtail_relaxed_tail_load_witness
    rw [hr] at h2
    simp only [Option.map_some, Option.some.injEq] at h2
    rw [h2] at h1
    exact absurd (h1 (1, 0) (by simp)) (by decide)

/-! ## (c, second part) what the SC theorems need of the loads of `head_` / `tail_` in `Add`

`Add` loads `tail_` and `head_` (both `seq_cst` loads in the source), but the writes they read from are the `release`
CAS of `head_` and the consumer's `tail_ += n`: in the C++ model the loads may return an **older** value of either
counter (`load_le_latest`: never a larger one, both counters only grow and are written by RMWs only, `rmw_mono`).
`Model/RingStale.lean` lets them return *any* older value - also pairs with `head < tail`, which
`headtail_pairs_ordered` shows no execution with the orders in the source produces (the two models are not coupled
formally: `RingStale` simply over-approximates).  The invariants of `Props/C11.lean` survive
(`stale_reachable_inv`), hence every **safety** theorem of C11 needs nothing of these loads.  What staleness costs is
precision of `add_fails_only_when_full` (a spurious "full": `stale_spurious_full_witness`) and extra retries (a stale
`head` sends the producer to a slot that is occupied, or makes its `head_` CAS fail: both are the model's retry
paths).  `Add` returning true and every slot write are read-modify-writes: they act on the latest value. -/

section stale
open Ring
variable {cap : Nat} (hc : 2 ≤ cap) {as : List RingStale.Act} {s : Ring.St} (h : RingStale.run (Ring.init cap) as = some s)
include hc h

/-- the SC invariants hold in every state reachable with stale loads -/
theorem stale_reachable_inv : Ring.Inv s ∧ Ring.Inv2 s := RingStale.reachable_inv cap hc as s h

theorem stale_consumed_is_log_prefix : s.out = s.log.take s.clr := (RingStale.reachable_inv cap hc as s h).1.outEq

theorem stale_consumed_at_most_once : s.out.Nodup := by
  rw [stale_consumed_is_log_prefix hc h]
  exact List.Sublist.nodup (List.take_sublist _ _) (RingStale.reachable_inv cap hc as s h).2.logNodup

/-- a stale read cannot make a failed `Add`'s element appear anywhere: not committed, not consumed, in no slot -/
theorem stale_failed_not_accepted (e : Nat) (he : e ∈ s.fails) : e ∉ s.log ∧ e ∉ s.out ∧ ∀ k, s.slots k ≠ some e := by
  obtain ⟨hI, h2⟩ := RingStale.reachable_inv cap hc as s h
  have hl := (h2.failsOk e he).2
  refine ⟨hl, fun ho => hl ?_, ?_⟩
  · rw [stale_consumed_is_log_prefix hc h] at ho; exact List.mem_of_mem_take ho
  · intro k hk
    rcases hI.slotOwn k e hk with ⟨i, hi1, hi2, hik⟩ | ⟨p, hp, hpe⟩
    · have := hI.commit i hi1 hi2
      rw [hik, hk] at this
      exact hl (List.mem_of_getElem? this.symm)
    · obtain ⟨hh, hpc, _⟩ := hp
      have hne : pcOf s p ≠ .idle := by rcases hpc with hpc | hpc <;> (rw [hpc]; simp)
      exact (h2.flight p hne).2.2.1 (hpe ▸ he)

theorem stale_size_le_capacity : s.head - s.tail ≤ cap - 1 := by
  have hcap : s.cap = cap := RingStale.cap_run _ _ as h
  rw [← hcap]; exact (RingStale.reachable_inv cap hc as s h).1.sizeLe

theorem stale_no_empty_slot_consumed {s' : Ring.St} (h' : Ring.step s .cClear = some s') : s.slots (s.clr % s.cap) ≠ none :=
  (inv_cClear s s' (RingStale.reachable_inv cap hc as s h).1 h').2

/-- **`Add` never returns true wrongly**: the commit log grows only by a `head_` CAS that found `head_` equal to the
    value the producer had read - however stale that read was when it was made - and at that moment the producer's
    element sits in slot `head % capacity` and nobody else's -/
theorem stale_commit_exact (a : RingStale.Act) (s' : Ring.St) (hs : RingStale.step s a = some s') (hlog : s'.log ≠ s.log) :
    ∃ p hh, a = .sc (.pCas p false) ∧ pcOf s p = .cas hh ∧ s.head = hh ∧ s'.log = s.log ++ [elOf s p] ∧
      s'.head = s.head + 1 ∧ s.slots (hh % s.cap) = some (elOf s p) := by
  have hI := (RingStale.reachable_inv cap hc as s h).1
  cases a with
  | ldTailStale p t =>
    exfalso; simp only [RingStale.step] at hs
    split at hs
    · cases hs; exact hlog rfl
    · cases hs
  | ldHeadStale p hh =>
    exfalso; simp only [RingStale.step] at hs
    (repeat' split at hs) <;> first | (cases hs; exact hlog rfl) | cases hs
  | sc a =>
    cases a with
    | pCas p spur =>
      simp only [RingStale.step, Ring.step] at hs
      split at hs
      · rename_i hh hpc
        split at hs
        · rename_i hcond
          cases hs
          obtain ⟨hhd, hsp⟩ := hcond
          subst hsp
          have hT : Tent s p (hh % s.cap) := ⟨hh, Or.inl hpc, rfl⟩
          exact ⟨p, hh, rfl, hpc, hhd, rfl, by simp [hhd], (hI.tentSlot p _ hT).1⟩
        · cases hs; exact absurd rfl hlog
      · cases hs
    | pStart p => exfalso; simp only [RingStale.step, Ring.step] at hs; (repeat' split at hs) <;> first | (cases hs; exact hlog rfl) | cases hs
    | pLdTail p => exfalso; simp only [RingStale.step, Ring.step] at hs; (repeat' split at hs) <;> first | (cases hs; exact hlog rfl) | cases hs
    | pLdHead p => exfalso; simp only [RingStale.step, Ring.step] at hs; (repeat' split at hs) <;> first | (cases hs; exact hlog rfl) | cases hs
    | pSwap p spur => exfalso; simp only [RingStale.step, Ring.step] at hs; (repeat' split at hs) <;> first | (cases hs; exact hlog rfl) | cases hs
    | pUndo p => exfalso; simp only [RingStale.step, Ring.step] at hs; (repeat' split at hs) <;> first | (cases hs; exact hlog rfl) | cases hs
    | cTake n => exfalso; simp only [RingStale.step, Ring.step] at hs; (repeat' split at hs) <;> first | (cases hs; exact hlog rfl) | cases hs
    | cClear => exfalso; simp only [RingStale.step, Ring.step] at hs; (repeat' split at hs) <;> first | (cases hs; exact hlog rfl) | cases hs

/-- **no slot is corrupted**: a producer between its slot CAS and its `head_` CAS / undo `Swap` finds its own element in
    the slot (so the undo `Swap` takes back exactly that), and the slot is not the home of a committed element -/
theorem stale_undo_takes_own_element (p hh : Nat) (hpc : pcOf s p = .cas hh ∨ pcOf s p = .undo hh) :
    s.slots (hh % s.cap) = some (elOf s p) ∧ ¬ Committed s (hh % s.cap) :=
  (RingStale.reachable_inv cap hc as s h).1.tentSlot p _ ⟨hh, hpc, rfl⟩

/-- **failure justification, as far as it survives** (`…_partial` of `add_fails_only_when_full`): when the full test
    succeeds on a pair of values read with `t ≤ h` (every pair is: `headtail_pairs_ordered`), the number of `Add` calls begun before this return, itself excluded,
    minus the consumption the producer has *seen* (`c0` = the smaller of the consumption when the call began and the
    `tail_` value it read) is at least `max_size`.  The SC statement has the consumption when the call began instead; it
    follows when the tail value read is not older than that (`c0Of` is then unchanged), which sequential consistency
    gives and the C++ model does not (`stale_spurious_full_witness`). -/
theorem stale_add_fails_only_when_seen_full_partial (p t hh : Nat) (hpc : pcOf s p = .ldHead t) (hle : hh ≤ s.head)
    (hth : t ≤ hh) (hfull : hh - t ≥ s.cap - 1) : (s.nextId - 1) - c0Of s p ≥ cap - 1 := by
  obtain ⟨hI, h2⟩ := RingStale.reachable_inv cap hc as s h
  have hcap : s.cap = cap := RingStale.cap_run _ _ as h
  have hne : pcOf s p ≠ .idle := by rw [hpc]; simp
  obtain ⟨f1, f2, _, _, _⟩ := h2.flight p hne
  have hc0 := h2.ldHeadC0 p t hpc
  have hlen : s.log.length < s.nextId := nodup_length_lt s.log s.nextId (elOf s p) h2.logNodup h2.logLt f1 f2
  have := hI.logLen
  omega

end stale

/-- the one thing staleness causes: **a spurious "full"**.  `max_size = 1`; producer 0 adds element 0, the consumer
    takes and clears it - the buffer is empty - then producer 0's next `Add` loads a stale `tail_ = 0` (it has not
    synchronised with the consumer), the current `head_ = 1`, and returns false. -/
theorem stale_spurious_full_witness :
    (RingStale.run (Ring.init 2)
      [.sc (.pStart 0), .sc (.pLdTail 0), .sc (.pLdHead 0), .sc (.pSwap 0 false), .sc (.pCas 0 false),
       .sc (.cTake 1), .sc .cClear, .sc (.pStart 0), .ldTailStale 0 0, .sc (.pLdHead 0)]).map
      (fun s => (s.fails, s.log, s.out, s.head, s.tail, s.clr)) = some ([1], [0], [0], 1, 1, 1) := by decide

/-- … which the SC model excludes: there the same `Add` (same schedule, latest values) goes on to the slot CAS -/
example : (Ring.run (Ring.init 2)
      [.pStart 0, .pLdTail 0, .pLdHead 0, .pSwap 0 false, .pCas 0 false, .cTake 1, .cClear, .pStart 0, .pLdTail 0, .pLdHead 0]).map
      (fun s => (s.fails, Ring.pcOf s 0)) = some ([], .swap 1 1) := by decide

/-- a stale `head_` only costs a retry: the producer goes to a slot of an older index, its `head_` CAS fails, it undoes
    and starts over; nothing is committed, nothing lost -/
example : (RingStale.run (Ring.init 3)
      [.sc (.pStart 0), .sc (.pLdTail 0), .sc (.pLdHead 0), .sc (.pSwap 0 false), .sc (.pCas 0 false),
       .sc (.cTake 1), .sc .cClear,
       .sc (.pStart 1), .ldTailStale 1 0, .ldHeadStale 1 0, .sc (.pSwap 1 false), .sc (.pCas 1 false), .sc (.pUndo 1)]).map
      (fun s => (s.log, s.fails, Ring.pcOf s 1, s.slots 0)) = some ([0], [], .ldTail, none) := by decide

end Otel.C11Mem
