import OtelVerif.Model.Metrics.Async
import OtelVerif.Props.C06
/-! # C17 — gauges report the latest value; observables are read once per collection

Theorems about `Model/Metrics/Async.lean`.  Histories are lists of operations, most recent first (as in C06).
The observable-counter clauses are obtained by a refinement: under the stated hypothesis (D21) an
`AsyncMetricStorage` behaves exactly like the `SyncMetricStorage` of C06 fed with the differences of successive
observations, so C06's theorems apply and the differences telescope. -/
namespace Otel.C17
open Otel.Temporal Otel.C06

/-! ## ObservableRegistry: each callback once per collection; removed / destroyed never again -/

inductive ROp
  | add (cb i : Nat)
  | remove (cb i : Nat)
  | cleanup (i : Nat)

def rstep (g : Registry) : ROp → Registry
  | .add cb i => addCallback g cb i
  | .remove cb i => removeCallback g cb i
  | .cleanup i => cleanupCallback g i

/-- registry after a history (most recent operation first) -/
def rrunRev : List ROp → Registry
  | [] => []
  | op :: o => rstep (rrunRev o) op

/-- **Specification**: how many times is the record (callback `cb`, instrument `i`) registered after a history:
    `AddCallback` adds one registration, `RemoveCallback` of the pair and destruction of the instrument end all. -/
def regCount (cb i : Nat) : List ROp → Nat
  | [] => 0
  | .add cb' i' :: o => regCount cb i o + (if cb' = cb ∧ i' = i then 1 else 0)
  | .remove cb' i' :: o => if cb' = cb ∧ i' = i then 0 else regCount cb i o
  | .cleanup i' :: o => if i' = i then 0 else regCount cb i o

theorem count_filter_ne (g : Registry) (x : Reg) (p : Reg → Bool) (hp : p x = true) :
    (g.filter p).count x = g.count x := by
  induction g with
  | nil => rfl
  | cons y t ih =>
    by_cases hy : y = x
    · subst hy; simp [List.filter_cons, hp, ih]
    · have hne : (y == x) = false := by simp [hy]
      rw [List.filter_cons]
      split <;> simp [List.count_cons, hne, ih]

theorem count_filter_eq (g : Registry) (x : Reg) (p : Reg → Bool) (hp : p x = false) :
    (g.filter p).count x = 0 := by
  apply List.count_eq_zero.mpr
  intro hm
  have := (List.mem_filter.mp hm).2
  rw [hp] at this; cases this

/-- **invocations_count**: after every history of `AddCallback` / `RemoveCallback` / instrument destruction, one
    `Observe` invokes the record (cb, i) exactly as many times as it is registered. -/
theorem invocations_count (cb i : Nat) : ∀ h : List ROp, (invocations (rrunRev h)).count ⟨cb, i⟩ = regCount cb i h
  | [] => rfl
  | .add cb' i' :: o => by
    have ih := invocations_count cb i o
    simp only [invocations] at ih ⊢
    simp only [rrunRev, rstep, addCallback, regCount, List.count_append, ih]
    by_cases hc : cb' = cb ∧ i' = i
    · obtain ⟨rfl, rfl⟩ := hc; simp
    · have : ((⟨cb', i'⟩ : Reg) == ⟨cb, i⟩) = false := by
        simp only [beq_eq_false_iff_ne, ne_eq, Reg.mk.injEq]; exact hc
      simp [hc, List.count_cons, this]
  | .remove cb' i' :: o => by
    have ih := invocations_count cb i o
    simp only [invocations] at ih ⊢
    simp only [rrunRev, rstep, removeCallback, regCount]
    by_cases hc : cb' = cb ∧ i' = i
    · obtain ⟨rfl, rfl⟩ := hc
      simp only [and_self, if_true]
      exact count_filter_eq _ _ _ (by simp)
    · simp only [hc, if_false]
      rw [count_filter_ne _ _ _ (by
        simp only [Bool.not_eq_true', Bool.and_eq_false_iff, beq_eq_false_iff_ne, ne_eq]
        by_cases h1 : cb = cb'
        · right; intro h2; exact hc ⟨h1.symm, h2.symm⟩
        · left; exact h1)]
      exact ih
  | .cleanup i' :: o => by
    have ih := invocations_count cb i o
    simp only [invocations] at ih ⊢
    simp only [rrunRev, rstep, cleanupCallback, regCount]
    by_cases hc : i' = i
    · subst hc; simp only [if_true]; exact count_filter_eq _ _ _ (by simp)
    · simp only [hc, if_false]
      rw [count_filter_ne _ _ _ (by simp; exact fun h => hc h.symm)]
      exact ih

/-- **registered_once_invoked_once**: a callback registered once on an instrument is invoked exactly once by a
    collection -/
theorem registered_once_invoked_once (cb i : Nat) (h : List ROp) (h1 : regCount cb i h = 1) :
    (invocations (rrunRev h)).count ⟨cb, i⟩ = 1 := by rw [invocations_count, h1]

/-- no `AddCallback(cb, i)` in `l` -/
def NoAdd (cb i : Nat) (l : List ROp) : Prop := ∀ op ∈ l, op ≠ ROp.add cb i
/-- no `AddCallback` on instrument `i` in `l` -/
def NoAddOn (i : Nat) (l : List ROp) : Prop := ∀ op ∈ l, ∀ cb, op ≠ ROp.add cb i

theorem regCount_zero_of_noAdd (cb i : Nat) (rest : List ROp) (h0 : regCount cb i rest = 0) :
    ∀ l : List ROp, NoAdd cb i l → regCount cb i (l ++ rest) = 0
  | [], _ => h0
  | op :: l, h => by
    have ih := regCount_zero_of_noAdd cb i rest h0 l (fun x hx => h x (List.mem_cons_of_mem _ hx))
    have hop := h op (List.mem_cons_self ..)
    cases op with
    | add cb' i' =>
      have : ¬ (cb' = cb ∧ i' = i) := by rintro ⟨rfl, rfl⟩; exact hop rfl
      simp [regCount, ih, this]
    | remove cb' i' => simp only [List.cons_append, regCount]; split <;> simp [ih]
    | cleanup i' => simp only [List.cons_append, regCount]; split <;> simp [ih]

/-- **removed_never_invoked**: after `RemoveCallback(cb, i)`, and as long as the pair is not registered again, no
    collection invokes it, whatever else happens to the registry. -/
theorem removed_never_invoked (cb i : Nat) (earlier later : List ROp) (hl : NoAdd cb i later) :
    (⟨cb, i⟩ : Reg) ∉ invocations (rrunRev (later ++ .remove cb i :: earlier)) := by
  have h0 : regCount cb i (.remove cb i :: earlier) = 0 := by simp [regCount]
  have := regCount_zero_of_noAdd cb i _ h0 later hl
  rw [← invocations_count] at this
  exact List.count_eq_zero.mp this

/-- **destroyed_instrument_never_invoked**: after the instrument is destroyed (`CleanupCallback`), no callback that
    was registered on it is invoked by any later collection. -/
theorem destroyed_instrument_never_invoked (cb i : Nat) (earlier later : List ROp) (hl : NoAddOn i later) :
    (⟨cb, i⟩ : Reg) ∉ invocations (rrunRev (later ++ .cleanup i :: earlier)) := by
  have h0 : regCount cb i (.cleanup i :: earlier) = 0 := by simp [regCount]
  have := regCount_zero_of_noAdd cb i _ h0 later (fun op hop => hl op hop cb)
  rw [← invocations_count] at this
  exact List.count_eq_zero.mp this

/-! ### the meter's registry is the registry of its registry operations, and a collection invokes exactly it -/

def regOps : List AOp → List ROp
  | [] => []
  | .addcb i cb :: o => .add cb i :: regOps o
  | .rmcb i cb :: o => .remove cb i :: regOps o
  | .destroy i :: o => .cleanup i :: regOps o
  | .create _ :: o => regOps o
  | .grec _ _ _ :: o => regOps o
  | .collect _ _ :: o => regOps o

theorem observe_registry (m : AMeter) (script : Script) : (observe m script).registry = m.registry := by
  unfold observe
  generalize invocations m.registry = l
  induction l generalizing m with
  | nil => rfl
  | cons inv t ih =>
    simp only [List.foldl_cons]
    rw [ih]
    cases hk : m.kinds[inv.instr]? with
    | none => simp
    | some k => cases k <;> simp

theorem meter_registry (c : Cfg) : ∀ h : List AOp, (amrunRev c h).registry = rrunRev (regOps h)
  | [] => rfl
  | op :: o => by
    have ih := meter_registry c o
    cases op with
    | create k => simpa [amrunRev, amstep, regOps] using ih
    | addcb i cb => simp [amrunRev, amstep, regOps, rrunRev, rstep, ih]
    | rmcb i cb => simp [amrunRev, amstep, regOps, rrunRev, rstep, ih]
    | destroy i => simp [amrunRev, amstep, regOps, rrunRev, rstep, ih]
    | grec i a v =>
      simp only [amrunRev, amstep, regOps]
      cases hk : (amrunRev c o).kinds[i]? with
      | none => simpa using ih
      | some k => cases k <;> simpa using ih
    | collect r script =>
      simp only [amrunRev, amstep, regOps, amcollect, observe_registry]
      exact ih

/-- **each_callback_once_per_collect**: for every meter history, the callbacks a collection by any reader invokes
    are exactly the records registered at that moment, each once, in registration order. -/
theorem each_callback_once_per_collect (c : Cfg) (h : List AOp) (r : Nat) (script : Script) :
    (amcollect c (amrunRev c h) r script).2.1 = (invocations (rrunRev (regOps h))).map (·.cb) := by
  simp [amcollect, meter_registry]

/-! ## Observable counters: refinement of `AsyncMetricStorage` to C06's `SyncMetricStorage` -/

theorem setTo_append : ∀ (m : DMap) (a : Nat) (v : Int), has m a = false → setTo m a v = m ++ [(a, v)]
  | [], _, _, _ => rfl
  | (k, x) :: t, a, v, h => by
    simp only [has, Bool.or_eq_false_iff, beq_eq_false_iff_ne, ne_eq] at h
    simp [setTo, h.1, setTo_append t a v h.2]

theorem addTo_append : ∀ (m : DMap) (a : Nat) (v : Int), has m a = false → addTo m a v = m ++ [(a, v)]
  | [], _, _, _ => rfl
  | (k, x) :: t, a, v, h => by
    simp only [has, Bool.or_eq_false_iff, beq_eq_false_iff_ne, ne_eq] at h
    simp [addTo, h.1, addTo_append t a v h.2]

theorem has_setTo : ∀ (m : DMap) (a : Nat) (v : Int) (x : Nat), has (setTo m a v) x = (has m x || a == x)
  | [], a, v, x => by simp [setTo, has]
  | (k, w) :: t, a, v, x => by
    unfold setTo
    by_cases hk : k = a
    · subst hk; simp only [if_true, has]; cases (k == x) <;> simp
    · simp only [hk, if_false, has, has_setTo t a v x, Bool.or_assoc]

theorem NoDup_setTo : ∀ (m : DMap) (a : Nat) (v : Int), NoDup m → NoDup (setTo m a v)
  | [], _, _, _ => by simp [setTo, NoDup]
  | (k, x) :: t, a, v, h => by
    unfold setTo
    by_cases hk : k = a
    · simp only [hk, if_true]; subst hk; exact h
    · simp only [hk, if_false, NoDup, has_setTo]
      refine ⟨?_, NoDup_setTo t a v h.2⟩
      have : (a == k) = false := by simp; exact fun h' => hk h'.symm
      simp [h.1, this]

theorem valAt_setTo : ∀ (m : DMap) (a : Nat) (v : Int) (x : Nat), NoDup m →
    valAt (setTo m a v) x = if a = x then v else valAt m x
  | [], a, v, x, _ => by simp [setTo, valAt]
  | (k, w) :: t, a, v, x, h => by
    unfold setTo
    by_cases hk : k = a
    · subst hk
      simp only [if_true, valAt]
      by_cases hx : k = x
      · subst hx; simp [valAt_of_not_has t k h.1]
      · simp [hx]
    · simp only [hk, if_false, valAt, valAt_setTo t a v x h.2]
      by_cases hx : a = x
      · subst hx; simp [hk]
      · simp [hx]

theorem has_append (m₁ m₂ : DMap) (x : Nat) : has (m₁ ++ m₂) x = (has m₁ x || has m₂ x) := by
  induction m₁ with
  | nil => simp
  | cons kv t ih => obtain ⟨k, w⟩ := kv; simp [has, ih, Bool.or_assoc]

/-- the differences `Record` puts into the delta map: observed total minus the previously observed total -/
def diffs (f : Nat → Int) (ms : DMap) : DMap := ms.map fun kv => (kv.1, kv.2 - f kv.1)

theorem has_diffs (f : Nat → Int) (ms : DMap) (x : Nat) : has (diffs f ms) x = has ms x := by
  induction ms with
  | nil => rfl
  | cons kv t ih => obtain ⟨k, w⟩ := kv; simp [diffs, has] at ih ⊢; rw [ih]

/-- **The record loop under the D21 hypothesis** (no attribute set twice in the cycle, none already in the delta
    map): the delta map receives exactly the differences against the totals observed before the cycle. -/
theorem recordAll_clean : ∀ (ms : DMap) (s : AsyncStorage), NoDup ms → NoDup s.cumulative →
    (∀ x, has ms x = true → has s.delta x = false) →
    (recordAll s ms).delta = s.delta ++ diffs (valAt s.cumulative) ms ∧
    (recordAll s ms).temporal = s.temporal ∧ NoDup (recordAll s ms).cumulative ∧
    (∀ x, valAt (recordAll s ms).cumulative x = if has ms x then valAt ms x else valAt s.cumulative x)
  | [], s, _, hc, _ => by simp [recordAll, diffs, hc]
  | (a, v) :: t, s, hnd, hc, hd => by
    have hp : (match s.cumulative.lookup a with | some p => v - p | none => v) = v - valAt s.cumulative a := by
      rw [valAt_eq_lookup _ _ hc]
      cases s.cumulative.lookup a <;> simp
    have hda : has s.delta a = false := hd a (by simp [has])
    -- one step
    have hs1 : recordOne s (a, v) =
        { s with cumulative := setTo s.cumulative a v, delta := s.delta ++ [(a, v - valAt s.cumulative a)] } := by
      unfold recordOne
      rw [← hp]
      cases s.cumulative.lookup a <;> simp [setTo_append _ _ _ hda]
    have ih := recordAll_clean t (recordOne s (a, v)) hnd.2 (by rw [hs1]; exact NoDup_setTo _ _ _ hc) (by
      intro x hx
      rw [hs1]; simp only [has_append, has, Bool.or_false]
      have hxa : (a == x) = false := by
        cases hax : (a == x) with
        | false => rfl
        | true => have : a = x := by simpa using hax
                  subst this; rw [hnd.1] at hx; cases hx
      rw [hd x (by simp [has, hx]), hxa]; rfl)
    have hrec : recordAll s ((a, v) :: t) = recordAll (recordOne s (a, v)) t := rfl
    rw [hrec]
    obtain ⟨i1, i2, i3, i4⟩ := ih
    refine ⟨?_, ?_, i3, ?_⟩
    · rw [i1, hs1]
      simp only [diffs, List.map_cons, List.append_assoc, List.singleton_append]
      congr 2
      apply List.map_congr_left
      intro kv hkv
      have hne : a ≠ kv.1 := by
        intro e
        have : has t a = true := by
          rw [e]; clear i1 i2 i3 i4 hrec hs1 hda hp hd hnd e
          induction t with
          | nil => cases hkv
          | cons y ys ihy =>
            rcases List.mem_cons.mp hkv with rfl | hm
            · simp [has]
            · simp [has, ihy hm]
        rw [hnd.1] at this; cases this
      rw [valAt_setTo _ _ _ _ hc]; simp [hne]
    · rw [i2, hs1]
    · intro x
      rw [i4 x, hs1]
      simp only [has, valAt, valAt_setTo _ _ _ _ hc]
      by_cases hax : a = x
      · subst hax; simp [hnd.1, valAt_of_not_has t a hnd.1]
      · have : (a == x) = false := by simp [hax]
        simp [hax, this]

/-- the same on the synchronous side: recording the differences one by one builds the same map -/
theorem record_adds : ∀ (d : DMap) (s : Storage), NoDup d → (∀ x, has d x = true → has s.cur x = false) →
    (d.foldl (fun s kv => record s kv.1 kv.2) s) = { s with cur := s.cur ++ d }
  | [], s, _, _ => by simp
  | (a, v) :: t, s, hnd, hd => by
    have hda : has s.cur a = false := hd a (by simp [has])
    simp only [List.foldl_cons]
    rw [record_adds t (record s a v) hnd.2 (by
      intro x hx
      simp only [record, addTo_append _ _ _ hda, has_append, has, Bool.or_false]
      have hxa : (a == x) = false := by
        cases hax : (a == x) with
        | false => rfl
        | true => have : a = x := by simpa using hax
                  subst this; rw [hnd.1] at hx; cases hx
      rw [hd x (by simp [has, hx]), hxa]; rfl)]
    simp [record, addTo_append _ _ _ hda]

theorem NoDup_diffs (f : Nat → Int) : ∀ ms : DMap, NoDup ms → NoDup (diffs f ms)
  | [], _ => trivial
  | (a, v) :: t, h => by
    have := has_diffs f t a
    simp only [diffs] at this
    simp only [diffs, List.map_cons, NoDup]
    exact ⟨by rw [this]; exact h.1, NoDup_diffs f t h.2⟩

/-- everything the callbacks of one cycle reported to this storage -/
def Cycle.obs (cy : Cycle) : DMap := cy.recs.flatten

/-- **The hypothesis made explicit (D21)**: within one collection no attribute set is reported twice to the
    storage — neither by two callbacks nor by one callback registered twice.  (And every collection is made by one
    of the configured readers.) -/
def Clean (c : Cfg) (h : List Cycle) : Prop := ∀ cy ∈ h, NoDup cy.obs ∧ cy.r < c.n

/-- **Specification**: the total most recently reported for attribute set `a` (0 before any report) -/
def lastObs : List Cycle → Nat → Int
  | [], _ => 0
  | cy :: o, a => if has cy.obs a then valAt cy.obs a else lastObs o a

/-- **Specification**: what reader `r` has been given for `a`: the total reported at `r`'s most recent collection -/
def givenTo (r : Nat) : List Cycle → Nat → Int
  | [], _ => 0
  | cy :: o, a => if cy.r = r then lastObs (cy :: o) a else givenTo r o a

/-- the synchronous history an asynchronous history corresponds to: each cycle becomes one `Add` per reported
    attribute set, of the difference against the total reported before, followed by the collection -/
def translate : List Cycle → List SOp
  | [] => []
  | cy :: o => .collect cy.r cy.ts :: ((diffs (lastObs o) cy.obs).map fun kv => SOp.add kv.1 kv.2).reverse ++ translate o

theorem foldl_recordAll (recs : List DMap) (s : AsyncStorage) : recs.foldl recordAll s = recordAll s recs.flatten := by
  induction recs generalizing s with
  | nil => rfl
  | cons m t ih => simp only [List.foldl_cons, List.flatten_cons, ih]; simp [recordAll, List.foldl_append]

theorem srunRev_adds (c : Cfg) : ∀ (d : DMap) (rest : List SOp),
    (srunRev c ((d.map fun kv => SOp.add kv.1 kv.2).reverse ++ rest)).1
        = d.foldl (fun s kv => record s kv.1 kv.2) (srunRev c rest).1 ∧
    (srunRev c ((d.map fun kv => SOp.add kv.1 kv.2).reverse ++ rest)).2 = (srunRev c rest).2
  | [], rest => by simp
  | kv :: t, rest => by
    have ih := srunRev_adds c t (SOp.add kv.1 kv.2 :: rest)
    simp only [List.map_cons, List.reverse_cons, List.append_assoc, List.singleton_append, List.foldl_cons]
    exact ⟨by rw [ih.1, srunRev_cons]; rfl, by rw [ih.2, outs_cons_add]⟩

/-- the asynchronous storage and the synchronous storage it is compared with are in corresponding states -/
structure ASim (h : List Cycle) (s : AsyncStorage) (t : Storage) : Prop where
  delta : s.delta = []
  cur : t.cur = []
  temporal : s.temporal = t.temporal
  nodup : NoDup s.cumulative
  cum : ∀ a, valAt s.cumulative a = lastObs h a

/-- the reversed list of `Add`s a cycle translates to -/
def cycleAdds (o : List Cycle) (cy : Cycle) : List SOp :=
  ((diffs (lastObs o) cy.obs).map fun kv => SOp.add kv.1 kv.2).reverse

theorem translate_cons (cy : Cycle) (o : List Cycle) :
    translate (cy :: o) = .collect cy.r cy.ts :: (cycleAdds o cy ++ translate o) := rfl

/-- one cycle, from corresponding states: same output, corresponding states again -/
theorem cycle_step (c : Cfg) (o : List Cycle) (cy : Cycle) (hnd : NoDup cy.obs) (hv : cy.r < c.n)
    (s : AsyncStorage) (t : Storage) (sim : ASim o s t) :
    (acycle c s cy).2 = (collect c (Storage.mk (diffs (lastObs o) cy.obs) t.temporal) cy.r cy.ts).2 ∧
    ASim (cy :: o) (acycle c s cy).1 (collect c (Storage.mk (diffs (lastObs o) cy.obs) t.temporal) cy.r cy.ts).1 := by
  have hcumf : valAt s.cumulative = lastObs o := funext sim.cum
  obtain ⟨r1, r2, r3, r4⟩ := recordAll_clean cy.obs s hnd sim.nodup (by intro x _; rw [sim.delta]; rfl)
  rw [sim.delta, List.nil_append, hcumf] at r1
  have hc1 : acycle c s cy =
      ({ recordAll s cy.obs with delta := [], temporal :=
          (buildMetrics c.n (c.temp cy.r) t.temporal cy.r cy.ts (diffs (lastObs o) cy.obs)).1 },
       (buildMetrics c.n (c.temp cy.r) t.temporal cy.r cy.ts (diffs (lastObs o) cy.obs)).2) := by
    simp only [acycle, foldl_recordAll, acollect, hv, if_true]
    have : cy.recs.flatten = cy.obs := rfl
    rw [this, r1, r2, sim.temporal]
  have hc2 := collect_eq c (Storage.mk (diffs (lastObs o) cy.obs) t.temporal) cy.r cy.ts hv
  rw [hc1, hc2]
  refine ⟨rfl, ⟨rfl, rfl, rfl, r3, ?_⟩⟩
  intro a; simp only []; rw [r4 a, sim.cum a]; rfl

/-- the synchronous run over a translated cycle -/
theorem srunRev_translate_cons (c : Cfg) (o : List Cycle) (cy : Cycle) (hnd : NoDup cy.obs)
    (hcur : (srunRev c (translate o)).1.cur = []) :
    (srunRev c (cycleAdds o cy ++ translate o)).1 = Storage.mk (diffs (lastObs o) cy.obs) (srunRev c (translate o)).1.temporal ∧
    (srunRev c (cycleAdds o cy ++ translate o)).2 = (srunRev c (translate o)).2 := by
  obtain ⟨a1, a2⟩ := srunRev_adds c (diffs (lastObs o) cy.obs) (translate o)
  rw [record_adds _ _ (NoDup_diffs _ _ hnd) (by intro x _; rw [hcur]; rfl), hcur, List.nil_append] at a1
  exact ⟨a1, a2⟩

/-- **async_refines_sync**: under the hypothesis, for every history of collection cycles by any readers, the
    asynchronous storage hands out exactly what C06's synchronous storage hands out on the translated history,
    and stays in a corresponding state. -/
theorem async_refines_sync (c : Cfg) : ∀ (h : List Cycle), Clean c h →
    ASim h (arunRev c h).1 (srunRev c (translate h)).1 ∧ (arunRev c h).2 = (srunRev c (translate h)).2
  | [], _ => by
    refine ⟨⟨rfl, rfl, rfl, trivial, fun a => rfl⟩, rfl⟩
  | cy :: o, hcl => by
    have hclo : Clean c o := fun x hx => hcl x (List.mem_cons_of_mem _ hx)
    have hnd : NoDup cy.obs := (hcl cy (List.mem_cons_self ..)).1
    have hv : cy.r < c.n := (hcl cy (List.mem_cons_self ..)).2
    obtain ⟨sim, houts⟩ := async_refines_sync c o hclo
    obtain ⟨a1, a2⟩ := srunRev_translate_cons c o cy hnd sim.cur
    obtain ⟨s1, s2⟩ := cycle_step c o cy hnd hv _ _ sim
    have hS1 : (srunRev c (translate (cy :: o))).1 =
        (collect c (Storage.mk (diffs (lastObs o) cy.obs) (srunRev c (translate o)).1.temporal) cy.r cy.ts).1 := by
      rw [translate_cons, srunRev_cons, a1]; rfl
    have hS2 : (srunRev c (translate (cy :: o))).2 =
        match (collect c (Storage.mk (diffs (lastObs o) cy.obs) (srunRev c (translate o)).1.temporal) cy.r cy.ts).2 with
        | some md => (cy.r, md) :: (srunRev c (translate o)).2 | none => (srunRev c (translate o)).2 := by
      rw [translate_cons, outs_cons_collect, a1, a2]
      cases (collect c (Storage.mk (diffs (lastObs o) cy.obs) (srunRev c (translate o)).1.temporal) cy.r cy.ts).2 <;> rfl
    have hA1 : (arunRev c (cy :: o)).1 = (acycle c (arunRev c o).1 cy).1 := rfl
    have hA2 : (arunRev c (cy :: o)).2 = match (acycle c (arunRev c o).1 cy).2 with
        | some md => (cy.r, md) :: (arunRev c o).2 | none => (arunRev c o).2 := rfl
    rw [hA1, hA2, hS1, hS2, s1, houts]
    exact ⟨s2, rfl⟩

/-- what reader `cy.r` receives in cycle `cy` after history `o` -/
def cycleOut (c : Cfg) (o : List Cycle) (cy : Cycle) : Option MetricData := (acycle c (arunRev c o).1 cy).2

/-- … is what C06's storage hands out after the translated history -/
theorem cycleOut_eq (c : Cfg) (o : List Cycle) (cy : Cycle) (hcl : Clean c (cy :: o)) :
    cycleOut c o cy = (collect c (srunRev c (cycleAdds o cy ++ translate o)).1 cy.r cy.ts).2 := by
  have hclo : Clean c o := fun x hx => hcl x (List.mem_cons_of_mem _ hx)
  have hnd : NoDup cy.obs := (hcl cy (List.mem_cons_self ..)).1
  have hv : cy.r < c.n := (hcl cy (List.mem_cons_self ..)).2
  obtain ⟨sim, _⟩ := async_refines_sync c o hclo
  rw [(srunRev_translate_cons c o cy hnd sim.cur).1]
  exact (cycle_step c o cy hnd hv _ _ sim).1

/-! ### telescoping -/

theorem recorded_adds (d : DMap) (a : Nat) : recorded ((d.map fun kv => SOp.add kv.1 kv.2).reverse) a = valAt d a := by
  rw [recorded_reverse]
  induction d with
  | nil => rfl
  | cons kv t ih => obtain ⟨k, v⟩ := kv; simp [recorded, valAt, ih]

theorem valAt_diffs (f : Nat → Int) (a : Nat) : ∀ ms : DMap, NoDup ms →
    valAt (diffs f ms) a = if has ms a then valAt ms a - f a else 0
  | [], _ => rfl
  | (k, v) :: t, h => by
    have ih := valAt_diffs f a t h.2
    simp only [diffs] at ih
    simp only [diffs, List.map_cons, valAt, has, ih]
    by_cases hk : k = a
    · subst hk; simp [h.1, valAt_of_not_has t k h.1]
    · have : (k == a) = false := by simp [hk]
      simp [hk, this]

theorem noCollect_cycleAdds (r : Nat) (o : List Cycle) (cy : Cycle) : NoCollectBy r (cycleAdds o cy) := by
  intro op hop
  simp only [cycleAdds, List.mem_reverse, List.mem_map] at hop
  obtain ⟨kv, _, rfl⟩ := hop
  rfl

theorem recSince_append_noCollect (r : Nat) (rest : List SOp) (a : Nat) :
    ∀ l : List SOp, NoCollectBy r l → recSince r (l ++ rest) a = recorded l a + recSince r rest a
  | [], _ => by simp [recorded]
  | .add a' v :: l, h => by
    simp only [List.cons_append, recSince, recorded]
    rw [recSince_append_noCollect r rest a l (fun op hm => h op (List.mem_cons_of_mem _ hm))]; omega
  | .collect r' t' :: l, h => by
    have h1 := h (.collect r' t') (List.mem_cons_self ..)
    have hne : r' ≠ r := by simpa [isCollectBy] using h1
    simp only [List.cons_append, recSince, recorded, hne, if_false]
    exact recSince_append_noCollect r rest a l (fun op hm => h op (List.mem_cons_of_mem _ hm))

theorem recorded_cycleAdds (o : List Cycle) (cy : Cycle) (hnd : NoDup cy.obs) (a : Nat) :
    recorded (cycleAdds o cy) a + lastObs o a = lastObs (cy :: o) a := by
  unfold cycleAdds
  rw [recorded_adds, valAt_diffs _ _ _ hnd]
  simp only [lastObs]
  split <;> omega

/-- **lastObs_eq_recorded**: the differences telescope — the Σ of the translated history is the last reported total -/
theorem lastObs_eq_recorded (c : Cfg) (a : Nat) : ∀ h : List Cycle, Clean c h → recorded (translate h) a = lastObs h a
  | [], _ => rfl
  | cy :: o, hcl => by
    have hclo : Clean c o := fun x hx => hcl x (List.mem_cons_of_mem _ hx)
    have hnd : NoDup cy.obs := (hcl cy (List.mem_cons_self ..)).1
    rw [translate_cons]; simp only [recorded]
    rw [recorded_append, lastObs_eq_recorded c a o hclo]
    exact recorded_cycleAdds o cy hnd a

theorem recSince_translate (c : Cfg) (r a : Nat) : ∀ h : List Cycle, Clean c h →
    recSince r (translate h) a = lastObs h a - givenTo r h a
  | [], _ => rfl
  | cy :: o, hcl => by
    have hclo : Clean c o := fun x hx => hcl x (List.mem_cons_of_mem _ hx)
    have hnd : NoDup cy.obs := (hcl cy (List.mem_cons_self ..)).1
    rw [translate_cons]; simp only [recSince, givenTo]
    by_cases hr : cy.r = r
    · simp [hr]
    · simp only [hr, if_false]
      rw [recSince_append_noCollect r _ a _ (noCollect_cycleAdds r o cy), recSince_translate c r a o hclo]
      have := recorded_cycleAdds o cy hnd a
      omega

/-! ### the clauses for observable counters and up-down counters -/

/-- **observable_cumulative_is_reported_total**: under the hypothesis, in every history, a cumulative reader's point
    for `a` is the total most recently reported for `a` … -/
theorem observable_cumulative_is_reported_total (c : Cfg) (o : List Cycle) (cy : Cycle) (hcl : Clean c (cy :: o))
    (hc : c.temp cy.r = .cumulative) (a : Nat) :
    valAt (pointsOf (cycleOut c o cy)) a = lastObs (cy :: o) a := by
  have hclo : Clean c o := fun x hx => hcl x (List.mem_cons_of_mem _ hx)
  have hnd : NoDup cy.obs := (hcl cy (List.mem_cons_self ..)).1
  have hv : cy.r < c.n := (hcl cy (List.mem_cons_self ..)).2
  rw [cycleOut_eq c o cy hcl, cumulative_running_total_rev c _ cy.r cy.ts hv hc a, recorded_append,
    lastObs_eq_recorded c a o hclo]
  exact recorded_cycleAdds o cy hnd a

/-- … in particular, for an attribute set the callback reports in this cycle, the value just reported -/
theorem observable_cumulative_reports_this_cycle (c : Cfg) (o : List Cycle) (cy : Cycle) (hcl : Clean c (cy :: o))
    (hc : c.temp cy.r = .cumulative) (a : Nat) (v : Int) (hrep : (a, v) ∈ cy.obs) :
    valAt (pointsOf (cycleOut c o cy)) a = v := by
  have hnd : NoDup cy.obs := (hcl cy (List.mem_cons_self ..)).1
  rw [observable_cumulative_is_reported_total c o cy hcl hc a]
  have key : ∀ (m : DMap), NoDup m → (a, v) ∈ m → has m a = true ∧ valAt m a = v := by
    intro m
    induction m with
    | nil => intro _ h; cases h
    | cons kv t ih =>
      obtain ⟨k, w⟩ := kv
      intro hn hm
      rcases List.mem_cons.mp hm with heq | hm
      · simp only [Prod.mk.injEq] at heq; obtain ⟨rfl, rfl⟩ := heq
        simp [has, valAt, valAt_of_not_has t a hn.1]
      · obtain ⟨i1, i2⟩ := ih hn.2 hm
        have hka : k ≠ a := by rintro rfl; rw [hn.1] at i1; cases i1
        simp [has, valAt, hka, i1, i2]
  obtain ⟨k1, k2⟩ := key cy.obs hnd hrep
  simp [lastObs, k1, k2]

/-- **observable_delta_is_diff_from_own_last**: under the hypothesis, in every history, a delta reader's point for
    `a` is the total most recently reported minus what this same reader was given at its own previous collection —
    the other readers' collections (which also run the callbacks) do not enter. -/
theorem observable_delta_is_diff_from_own_last (c : Cfg) (o : List Cycle) (cy : Cycle) (hcl : Clean c (cy :: o))
    (hd : c.temp cy.r = .delta) (a : Nat) :
    valAt (pointsOf (cycleOut c o cy)) a = lastObs (cy :: o) a - givenTo cy.r o a := by
  have hclo : Clean c o := fun x hx => hcl x (List.mem_cons_of_mem _ hx)
  have hnd : NoDup cy.obs := (hcl cy (List.mem_cons_self ..)).1
  have hv : cy.r < c.n := (hcl cy (List.mem_cons_self ..)).2
  rw [cycleOut_eq c o cy hcl, interval_exact_rev c _ cy.r cy.ts hv hd a,
    recSince_append_noCollect cy.r _ a _ (noCollect_cycleAdds cy.r o cy), recSince_translate c cy.r a o hclo]
  have := recorded_cycleAdds o cy hnd a
  omega

/-- **observable_delta_sums_to_given**: the delta points a reader has received for `a` add up to the total reported
    at its most recent collection. -/
theorem observable_delta_sums_to_given (c : Cfg) (h : List Cycle) (hcl : Clean c h) (r : Nat) (hr : r < c.n)
    (hd : c.temp r = .delta) (a : Nat) : delivered r (arunRev c h).2 a = givenTo r h a := by
  rw [(async_refines_sync c h hcl).2, delivered_eq c r hr hd a, lastObs_eq_recorded c a h hcl,
    recSince_translate c r a h hcl]
  omega

/-- **reader_noninterference (async)**: what a delta reader receives depends only on the latest reported total and
    on what this reader itself was last given: two histories that agree on these two give it the same value, however
    many collections other readers made in either. -/
theorem reader_noninterference_async (c : Cfg) (o₁ o₂ : List Cycle) (cy₁ cy₂ : Cycle)
    (h1 : Clean c (cy₁ :: o₁)) (h2 : Clean c (cy₂ :: o₂)) (hr : cy₁.r = cy₂.r) (hd : c.temp cy₁.r = .delta) (a : Nat)
    (hlast : lastObs (cy₁ :: o₁) a = lastObs (cy₂ :: o₂) a) (hgiven : givenTo cy₁.r o₁ a = givenTo cy₂.r o₂ a) :
    valAt (pointsOf (cycleOut c o₁ cy₁)) a = valAt (pointsOf (cycleOut c o₂ cy₂)) a := by
  rw [observable_delta_is_diff_from_own_last c o₁ cy₁ h1 hd a,
    observable_delta_is_diff_from_own_last c o₂ cy₂ h2 (by rw [← hr]; exact hd) a, hlast, hgiven]

/-- **D21_witness**: without the hypothesis the clause fails.  One callback registered twice reports the total 10 for
    attribute set 1 in the first cycle: the second `Record` overwrites the first delta with `10 - 10`, the delta
    reader receives 0 although every report said 10 and it was given nothing before. -/
theorem D21_witness :
    let c : Cfg := ⟨[.delta]⟩
    let cy : Cycle := ⟨[[(1, 10)], [(1, 10)]], 0, 1⟩
    valAt (pointsOf (cycleOut c [] cy)) 1 = 0 ∧ (∀ kv ∈ cy.obs, kv = (1, 10)) ∧ givenTo 0 [] 1 = 0 ∧ ¬ NoDup cy.obs := by
  refine ⟨by decide, by decide, rfl, ?_⟩
  simp [Cycle.obs, NoDup, has]

/-- the hypothesis is satisfiable: two callbacks reporting different attribute sets, two readers -/
example : Clean ⟨[.delta, .cumulative]⟩ [⟨[[(1, 10)], [(2, 7), (3, 0)]], 1, 2⟩, ⟨[[(1, 4)]], 0, 1⟩] := by
  intro cy h; simp at h; rcases h with rfl | rfl <;> simp [Cycle.obs, NoDup, has, Cfg.n]

/-! ## Gauges: the last-value aggregation through the temporal storage -/

/-- `(o or default)->Merge(s)`: the default aggregation carries the epoch as sample time -/
def later' (o : Option Sample) (s : Sample) : Sample :=
  match o with
  | none => s
  | some p => later p s

/-- combine what is known so far with the (possibly absent) sample of the next map -/
def olat (o : Option Sample) (s : Option Sample) : Option Sample :=
  match s with
  | none => o
  | some s => some (later' o s)

/-- no key occurs twice -/
def LNoDup : LMap → Prop
  | [] => True
  | (k, _) :: t => t.lookup k = none ∧ LNoDup t

theorem later_epoch (s : Sample) : later ⟨0, 0⟩ s = s := by simp [later]

theorem lookup_lset : ∀ (m : LMap) (a : Nat) (s : Sample) (x : Nat),
    (lset m a s).lookup x = if x = a then some s else m.lookup x
  | [], a, s, x => by
    by_cases h : x = a
    · subst h; simp [lset, List.lookup]
    · have : (x == a) = false := by simp [h]
      simp [lset, List.lookup, h, this]
  | (k, w) :: t, a, s, x => by
    unfold lset
    by_cases hk : k = a
    · subst hk
      by_cases h : x = k
      · subst h; simp [List.lookup]
      · have : (x == k) = false := by simp [h]
        simp [List.lookup, h, this]
    · simp only [hk, if_false]
      by_cases hxk : x = k
      · subst hxk; simp [List.lookup, hk]
      · have : (x == k) = false := by simp [hxk]
        simp only [List.lookup, this]
        exact lookup_lset t a s x

theorem LNoDup_lset : ∀ (m : LMap) (a : Nat) (s : Sample), LNoDup m → LNoDup (lset m a s)
  | [], _, _, _ => by simp [lset, LNoDup, List.lookup]
  | (k, w) :: t, a, s, h => by
    unfold lset
    by_cases hk : k = a
    · subst hk; simp only [if_true]; exact h
    · simp only [hk, if_false, LNoDup]
      refine ⟨?_, LNoDup_lset t a s h.2⟩
      rw [lookup_lset]; simp [hk, h.1]

theorem lookup_lmergeOne (acc : LMap) (kv : Nat × Sample) (x : Nat) :
    (lmergeOne acc kv).lookup x = if x = kv.1 then some (later' (acc.lookup kv.1) kv.2) else acc.lookup x := by
  unfold lmergeOne
  cases h : acc.lookup kv.1 with
  | none => simp only [lookup_lset, later', later_epoch]
  | some p => simp only [lookup_lset, later']

theorem LNoDup_lmergeOne (acc : LMap) (kv : Nat × Sample) (h : LNoDup acc) : LNoDup (lmergeOne acc kv) := by
  unfold lmergeOne
  cases acc.lookup kv.1 <;> exact LNoDup_lset _ _ _ h

theorem lookup_lmergeInto : ∀ (m acc : LMap) (x : Nat), LNoDup m →
    (lmergeInto acc m).lookup x = olat (acc.lookup x) (m.lookup x)
  | [], acc, x, _ => by simp [lmergeInto, olat, List.lookup]
  | (k, w) :: t, acc, x, h => by
    have ih := lookup_lmergeInto t (lmergeOne acc (k, w)) x h.2
    have hstep : lmergeInto acc ((k, w) :: t) = lmergeInto (lmergeOne acc (k, w)) t := rfl
    rw [hstep, ih, lookup_lmergeOne]
    by_cases hx : x = k
    · subst hx; simp [List.lookup, h.1, olat]
    · have : (x == k) = false := by simp [hx]
      simp [List.lookup, hx, this]

theorem LNoDup_lmergeInto : ∀ (m acc : LMap), LNoDup acc → LNoDup (lmergeInto acc m)
  | [], _, h => h
  | kv :: t, acc, h => LNoDup_lmergeInto t _ (LNoDup_lmergeOne acc kv h)

/-- fold over a list of maps, for one key -/
def foldLat (l : List LMap) (o : Option Sample) (x : Nat) : Option Sample := l.foldl (fun o m => olat o (m.lookup x)) o

theorem lookup_foldl_lmergeInto : ∀ (l : List LMap) (acc : LMap) (x : Nat), (∀ m ∈ l, LNoDup m) →
    (l.foldl lmergeInto acc).lookup x = foldLat l (acc.lookup x) x
  | [], _, _, _ => rfl
  | m :: t, acc, x, h => by
    simp only [List.foldl_cons, foldLat]
    rw [lookup_foldl_lmergeInto t _ x (fun m' hm => h m' (List.mem_cons_of_mem _ hm)),
      lookup_lmergeInto m acc x (h m (List.mem_cons_self ..))]
    rfl

theorem lookup_lmergeAll (l : List LMap) (x : Nat) (h : ∀ m ∈ l, LNoDup m) :
    (lmergeAll l).lookup x = foldLat l none x := by
  unfold lmergeAll; rw [lookup_foldl_lmergeInto l [] x h]; rfl

theorem LNoDup_lmergeAll (l : List LMap) : LNoDup (lmergeAll l) := by
  unfold lmergeAll
  suffices ∀ acc, LNoDup acc → LNoDup (l.foldl lmergeInto acc) from this [] trivial
  induction l with
  | nil => intro acc h; exact h
  | cons m t ih => intro acc h; exact ih _ (LNoDup_lmergeInto m acc h)

theorem foldLat_append (l : List LMap) (m : LMap) (o : Option Sample) (x : Nat) :
    foldLat (l ++ [m]) o x = olat (foldLat l o x) (m.lookup x) := by
  simp [foldLat, List.foldl_append]

/-! ### specification vocabulary for gauge histories (most recent operation first) -/

/-- the most recent sample recorded for `x` -/
def latestRec : List LOp → Nat → Option Sample
  | [], _ => none
  | .record a s :: o, x => if a = x then some s else latestRec o x
  | .collect _ _ :: o, x => latestRec o x

/-- the most recent sample recorded for `x` since reader `r`'s last collection -/
def latestSince (r : Nat) : List LOp → Nat → Option Sample
  | [], _ => none
  | .record a s :: o, x => if a = x then some s else latestSince r o x
  | .collect r' _ :: o, x => if r' = r then none else latestSince r o x

/-- the most recent sample recorded for `x` before reader `r`'s last collection -/
def latestBefore (r : Nat) : List LOp → Nat → Option Sample
  | [], _ => none
  | .record _ _ :: o, x => latestBefore r o x
  | .collect r' _ :: o, x => if r' = r then latestRec o x else latestBefore r o x

def anyRec : List LOp → Bool
  | [] => false
  | .record _ _ :: _ => true
  | .collect _ _ :: o => anyRec o

def anyRecSince (r : Nat) : List LOp → Bool
  | [] => false
  | .record _ _ :: _ => true
  | .collect r' _ :: o => if r' = r then false else anyRecSince r o

/-- greatest sample time in the history -/
def maxTs : List LOp → Nat
  | [] => 0
  | .record _ s :: o => max s.ts (maxTs o)
  | .collect _ _ :: o => maxTs o

/-- **The clock hypothesis**: sample times are strictly increasing along the history (the design's "logical sample
    times"; the real clock can tie, which is why the baseline's last-value tests are flaky) -/
def Increasing : List LOp → Prop
  | [] => True
  | .record _ s :: o => maxTs o < s.ts ∧ Increasing o
  | .collect _ _ :: o => Increasing o

theorem latestRec_le_maxTs : ∀ (h : List LOp) (x : Nat) (p : Sample), latestRec h x = some p → p.ts ≤ maxTs h
  | [], _, _, hh => by simp [latestRec] at hh
  | .record a s :: o, x, p, hh => by
    simp only [latestRec] at hh
    simp only [maxTs]
    split at hh
    · simp only [Option.some.injEq] at hh; subst hh; exact Nat.le_max_left ..
    · exact Nat.le_trans (latestRec_le_maxTs o x p hh) (Nat.le_max_right ..)
  | .collect _ _ :: o, x, p, hh => latestRec_le_maxTs o x p hh

theorem latestSince_le_maxTs (r : Nat) : ∀ (h : List LOp) (x : Nat) (p : Sample), latestSince r h x = some p → p.ts ≤ maxTs h
  | [], _, _, hh => by simp [latestSince] at hh
  | .record a s :: o, x, p, hh => by
    simp only [latestSince] at hh
    simp only [maxTs]
    split at hh
    · simp only [Option.some.injEq] at hh; subst hh; exact Nat.le_max_left ..
    · exact Nat.le_trans (latestSince_le_maxTs r o x p hh) (Nat.le_max_right ..)
  | .collect r' _ :: o, x, p, hh => by
    simp only [latestSince] at hh
    split at hh
    · cases hh
    · exact latestSince_le_maxTs r o x p hh

theorem latestBefore_le_maxTs (r : Nat) : ∀ (h : List LOp) (x : Nat) (p : Sample), latestBefore r h x = some p → p.ts ≤ maxTs h
  | [], _, _, hh => by simp [latestBefore] at hh
  | .record a s :: o, x, p, hh => by
    simp only [latestBefore] at hh
    exact Nat.le_trans (latestBefore_le_maxTs r o x p hh) (Nat.le_max_right ..)
  | .collect r' _ :: o, x, p, hh => by
    simp only [latestBefore] at hh
    split at hh
    · exact latestRec_le_maxTs o x p hh
    · exact latestBefore_le_maxTs r o x p hh

/-- what was recorded before the reader's last collection is older than what was recorded after it -/
theorem before_lt_since (r : Nat) : ∀ (h : List LOp) (x : Nat) (p l : Sample), Increasing h →
    latestSince r h x = some p → latestBefore r h x = some l → l.ts < p.ts
  | [], _, _, _, _, hs, _ => by simp [latestSince] at hs
  | .record a s :: o, x, p, l, hi, hs, hb => by
    simp only [latestSince] at hs
    simp only [latestBefore] at hb
    split at hs
    · simp only [Option.some.injEq] at hs; subst hs
      exact Nat.lt_of_le_of_lt (latestBefore_le_maxTs r o x l hb) hi.1
    · exact before_lt_since r o x p l hi.2 hs hb
  | .collect r' _ :: o, x, p, l, hi, hs, hb => by
    simp only [latestSince] at hs
    simp only [latestBefore] at hb
    split at hs
    · cases hs
    · rename_i hne; simp only [hne, if_false] at hb
      exact before_lt_since r o x p l hi hs hb

theorem latestRec_split (r : Nat) : ∀ (h : List LOp) (x : Nat),
    latestRec h x = match latestSince r h x with | some p => some p | none => latestBefore r h x
  | [], _ => rfl
  | .record a s :: o, x => by
    simp only [latestRec, latestSince, latestBefore]
    split
    · rfl
    · exact latestRec_split r o x
  | .collect r' _ :: o, x => by
    simp only [latestRec, latestSince, latestBefore]
    by_cases hr : r' = r
    · simp [hr]
    · simp only [hr, if_false]; exact latestRec_split r o x

theorem latestRec_none_of_anyRec : ∀ (h : List LOp) (x : Nat), anyRec h = false → latestRec h x = none
  | [], _, _ => rfl
  | .record _ _ :: _, _, hh => by simp [anyRec] at hh
  | .collect _ _ :: o, x, hh => latestRec_none_of_anyRec o x (by simpa [anyRec] using hh)

/-! ### normal forms of `lbuild` and the invariant -/

def lstash (t : LState) (r : Nat) : List LMap := (t.unreported r).getD []
def llastMap (t : LState) (r : Nat) : LMap := ((t.last r).map (·.1)).getD []

def lstashed (n : Nat) (u : Nat → Option (List LMap)) (δ : LMap) : Nat → Option (List LMap) :=
  if δ.isEmpty then u else lstashAll n u δ

def lmergedFor (t : LState) (temp : Temporality) (r : Nat) (lst : List LMap) : LMap :=
  match t.last r, temp with
  | some (lm, _), .cumulative => lmergeInto (lmergeAll lst) lm
  | _, _ => lmergeAll lst

theorem lbuild_multi_none (n : Nat) (temp : Temporality) (t : LState) (r now : Nat) (δ : LMap)
    (hf : fastPath n temp = false) (hu : lstashed n t.unreported δ r = none) :
    lbuild n temp t r now δ = ({ t with unreported := lstashed n t.unreported δ }, none) := by
  unfold lbuild
  unfold lstashed at hu ⊢
  simp only [hf, Bool.false_eq_true, if_false, hu]

theorem lbuild_multi_some (n : Nat) (temp : Temporality) (t : LState) (r now : Nat) (δ : LMap) (lst : List LMap)
    (hf : fastPath n temp = false) (hu : lstashed n t.unreported δ r = some lst) :
    ∃ start, lbuild n temp t r now δ =
      (⟨setAt (lstashed n t.unreported δ) r (some []), setAt t.last r (some (lmergedFor t temp r lst, now))⟩,
       some ⟨temp, start, now, lmergedFor t temp r lst⟩) := by
  unfold lbuild lmergedFor
  unfold lstashed at hu ⊢
  simp only [hf, Bool.false_eq_true, if_false, hu]
  cases hl : t.last r with
  | none => exact ⟨0, by simp⟩
  | some p =>
    obtain ⟨lm, lts⟩ := p
    cases temp
    · exact ⟨lts, by simp⟩
    · exact ⟨0, by simp⟩

theorem lbuild_fast (n : Nat) (temp : Temporality) (t : LState) (r now : Nat) (δ : LMap)
    (hf : fastPath n temp = true) :
    ∃ start, lbuild n temp t r now δ =
      if δ.isEmpty then (t, none)
      else ({ t with last := setAt t.last r (some (llastMap t r, now)) }, some ⟨.delta, start, now, δ⟩) := by
  unfold lbuild
  simp only [hf, if_true]
  by_cases he : δ.isEmpty
  · exact ⟨0, by simp [he]⟩
  · simp only [he, Bool.false_eq_true, if_false]
    cases hl : t.last r with
    | none => exact ⟨0, by simp [llastMap, hl]⟩
    | some p => obtain ⟨lm, lts⟩ := p; exact ⟨lts, by simp [llastMap, hl]⟩

theorem lstashed_fold (n : Nat) (u : Nat → Option (List LMap)) (δ : LMap) (r : Nat) (hr : r < n) (x : Nat) :
    foldLat ((lstashed n u δ r).getD []) none x = olat (foldLat ((u r).getD []) none x) (δ.lookup x) := by
  unfold lstashed
  by_cases he : δ.isEmpty
  · have : δ = [] := List.isEmpty_iff.mp he
    subst this; simp [olat, List.lookup]
  · simp only [he, Bool.false_eq_true, if_false, lstashAll, hr, if_true, Option.getD_some]
    exact foldLat_append _ _ _ _

theorem lstashed_isSome (n : Nat) (u : Nat → Option (List LMap)) (δ : LMap) (r : Nat) (hr : r < n) :
    (lstashed n u δ r).isSome = ((u r).isSome || !δ.isEmpty) := by
  unfold lstashed
  by_cases he : δ.isEmpty
  · simp [he]
  · simp [he, lstashAll, hr]

theorem lstashed_nodup (n : Nat) (u : Nat → Option (List LMap)) (δ : LMap) (r : Nat) (hδ : LNoDup δ)
    (hu : ∀ m ∈ (u r).getD [], LNoDup m) : ∀ m ∈ (lstashed n u δ r).getD [], LNoDup m := by
  unfold lstashed
  by_cases he : δ.isEmpty
  · simpa [he] using hu
  · simp only [he, Bool.false_eq_true, if_false, lstashAll]
    split
    · intro m hm
      simp only [Option.getD_some, List.mem_append, List.mem_singleton] at hm
      rcases hm with hm | rfl
      · exact hu m hm
      · exact hδ
    · exact hu

/-- state `s` is consistent with gauge history `h`, for reader `r` -/
structure LInv (c : Cfg) (h : List LOp) (s : LStorage) (r : Nat) : Prop where
  ndCur : LNoDup s.cur
  ndStash : ∀ m ∈ lstash s.temporal r, LNoDup m
  ndLast : LNoDup (llastMap s.temporal r)
  /-- stash then current map, folded for one key, is the latest sample of the reader's interval -/
  pend : ∀ x, olat (foldLat (lstash s.temporal r) none x) (s.cur.lookup x) = latestSince r h x
  stashBound : ∀ x p, foldLat (lstash s.temporal r) none x = some p → p.ts ≤ maxTs h
  last : c.temp r = .cumulative → ∀ x, (llastMap s.temporal r).lookup x = latestBefore r h x
  lastStash : fastPath c.n (c.temp r) = false → s.temporal.unreported r = none → s.temporal.last r = none
  noStash : fastPath c.n (c.temp r) = true → s.temporal.unreported r = none

theorem linv_init (c : Cfg) (r : Nat) : LInv c [] LStorage.init r := by
  constructor <;> simp [LStorage.init, LState.init, lstash, llastMap, LNoDup, foldLat, olat, latestSince,
    latestBefore, List.lookup]

theorem lcollect_eq (c : Cfg) (s : LStorage) (r ts : Nat) (hr : r < c.n) :
    lcollect c s r ts = ({ cur := [], temporal := (lbuild c.n (c.temp r) s.temporal r ts s.cur).1 },
      (lbuild c.n (c.temp r) s.temporal r ts s.cur).2) := by
  simp [lcollect, hr]

theorem linv_record (c : Cfg) (h : List LOp) (s : LStorage) (r a : Nat) (x : Sample) (hinc : maxTs h < x.ts)
    (hi : LInv c h s r) : LInv c (.record a x :: h) (lstep c s (.record a x)).1 r := by
  simp only [lstep]
  constructor
  · exact LNoDup_lset _ _ _ hi.ndCur
  · exact hi.ndStash
  · exact hi.ndLast
  · intro y
    simp only [lookup_lset, latestSince]
    by_cases hy : y = a
    · subst hy
      simp only [if_true, olat]
      cases hf : foldLat (lstash s.temporal r) none y with
      | none => rfl
      | some p =>
        have := hi.stashBound y p hf
        have hlt : ¬ p.ts > x.ts := by omega
        simp [later', later, hlt]
    · have hne : ¬ a = y := fun e => hy e.symm
      simp only [hy, hne, if_false]; exact hi.pend y
  · intro y p hp
    exact Nat.le_trans (hi.stashBound y p hp) (by simp only [maxTs]; exact Nat.le_max_right ..)
  · intro hc y; simpa [latestBefore] using hi.last hc y
  · exact hi.lastStash
  · exact hi.noStash

theorem linv_collect_invalid (c : Cfg) (h : List LOp) (s : LStorage) (r' ts : Nat) (hv : ¬ r' < c.n)
    (r : Nat) (hr : r < c.n) (hi : LInv c h s r) : LInv c (.collect r' ts :: h) (lstep c s (.collect r' ts)).1 r := by
  have hne : r' ≠ r := by omega
  have hc : (lstep c s (.collect r' ts)).1 = s := by simp [lstep, lcollect, hv]
  rw [hc]
  exact ⟨hi.ndCur, hi.ndStash, hi.ndLast, fun x => by simpa [latestSince, hne] using hi.pend x,
    fun x p hp => by simpa [maxTs] using hi.stashBound x p hp,
    fun hc x => by simpa [latestBefore, hne] using hi.last hc x, hi.lastStash, hi.noStash⟩

theorem linv_collect_other (c : Cfg) (h : List LOp) (s : LStorage) (r' ts : Nat) (hv : r' < c.n)
    (hf : fastPath c.n (c.temp r') = false) (r : Nat) (hr : r < c.n) (hne : r' ≠ r) (hi : LInv c h s r) :
    LInv c (.collect r' ts :: h) (lstep c s (.collect r' ts)).1 r := by
  have hfr : fastPath c.n (c.temp r) = false := by rw [fastPath_same c hr hv]; exact hf
  have hne' : r ≠ r' := fun e => hne e.symm
  have hfold := lstashed_fold c.n s.temporal.unreported s.cur r hr
  have hsome := lstashed_isSome c.n s.temporal.unreported s.cur r hr
  have hnd := lstashed_nodup c.n s.temporal.unreported s.cur r hi.ndCur hi.ndStash
  have hpendb : ∀ x p, olat (foldLat (lstash s.temporal r) none x) (s.cur.lookup x) = some p → p.ts ≤ maxTs h := by
    intro x p hp; rw [hi.pend x] at hp; exact latestSince_le_maxTs r h x p hp
  simp only [lstep]
  rw [lcollect_eq c s r' ts hv]
  cases hu : lstashed c.n s.temporal.unreported s.cur r' with
  | none =>
    rw [lbuild_multi_none _ _ _ _ _ _ hf hu]
    refine ⟨trivial, hnd, hi.ndLast, ?_, ?_, ?_, ?_, fun hf' => by simp [hfr] at hf'⟩
    · intro x; simp only [lstash, latestSince, hne, if_false]
      rw [hfold x]; simpa [olat, List.lookup, lstash] using hi.pend x
    · intro x p hp; simp only [lstash] at hp; rw [hfold x] at hp; simpa [maxTs] using hpendb x p hp
    · intro hc x; simpa [latestBefore, hne, llastMap] using hi.last hc x
    · intro _ hn
      simp only at hn
      apply hi.lastStash hfr
      cases hx : s.temporal.unreported r with
      | none => rfl
      | some l => have := hsome; rw [hn, hx] at this; simp at this
  | some lst =>
    obtain ⟨start, hb⟩ := lbuild_multi_some _ _ _ _ _ _ lst hf hu
    rw [hb]
    refine ⟨trivial, ?_, ?_, ?_, ?_, ?_, ?_, fun hf' => by simp [hfr] at hf'⟩
    · simpa [lstash, setAt_other _ _ hne'] using hnd
    · simpa [llastMap, setAt_other _ _ hne'] using hi.ndLast
    · intro x; simp only [lstash, setAt_other _ _ hne', latestSince, hne, if_false]
      rw [hfold x]; simpa [olat, List.lookup, lstash] using hi.pend x
    · intro x p hp; simp only [lstash, setAt_other _ _ hne'] at hp; rw [hfold x] at hp; simpa [maxTs] using hpendb x p hp
    · intro hc x; simpa [latestBefore, hne, llastMap, setAt_other _ _ hne'] using hi.last hc x
    · intro _ hn
      simp only [setAt_other _ _ hne'] at hn ⊢
      apply hi.lastStash hfr
      cases hx : s.temporal.unreported r with
      | none => rfl
      | some l => have := hsome; rw [hn, hx] at this; simp at this

/-- the key-wise content of the map reported on the general path -/
theorem lookup_lmergedFor (t : LState) (temp : Temporality) (r : Nat) (lst : List LMap) (x : Nat)
    (hl : ∀ m ∈ lst, LNoDup m) (hlast : LNoDup (llastMap t r)) :
    (lmergedFor t temp r lst).lookup x =
      match temp with
      | .delta => foldLat lst none x
      | .cumulative => olat (foldLat lst none x) ((llastMap t r).lookup x) := by
  unfold lmergedFor llastMap at *
  cases hl' : t.last r with
  | none => cases temp <;> simp [lookup_lmergeAll _ _ hl, olat, List.lookup]
  | some p =>
    obtain ⟨lm, lts⟩ := p
    rw [hl'] at hlast
    cases temp
    · simp [lookup_lmergeAll _ _ hl]
    · simp only [Option.map_some, Option.getD_some] at hlast ⊢
      rw [lookup_lmergeInto lm _ x hlast, lookup_lmergeAll _ _ hl]

theorem LNoDup_lmergedFor (t : LState) (temp : Temporality) (r : Nat) (lst : List LMap) : LNoDup (lmergedFor t temp r lst) := by
  unfold lmergedFor
  cases t.last r with
  | none => exact LNoDup_lmergeAll _
  | some p =>
    obtain ⟨lm, lts⟩ := p
    cases temp
    · exact LNoDup_lmergeAll _
    · exact LNoDup_lmergeInto _ _ (LNoDup_lmergeAll _)

/-- combining the interval's latest sample with the older last report gives the latest sample overall -/
theorem olat_since_before (r : Nat) (h : List LOp) (x : Nat) (hinc : Increasing h) :
    olat (latestSince r h x) (latestBefore r h x) = latestRec h x := by
  rw [latestRec_split r h x]
  cases hs : latestSince r h x with
  | none => cases hb : latestBefore r h x <;> simp [olat, later']
  | some p =>
    cases hb : latestBefore r h x with
    | none => simp [olat]
    | some l =>
      have := before_lt_since r h x p l hinc hs hb
      simp [olat, later', later, this]

theorem linv_collect_self (c : Cfg) (h : List LOp) (s : LStorage) (r ts : Nat) (hr : r < c.n)
    (hf : fastPath c.n (c.temp r) = false) (hinc : Increasing h) (hi : LInv c h s r) :
    LInv c (.collect r ts :: h) (lstep c s (.collect r ts)).1 r := by
  have hfold := lstashed_fold c.n s.temporal.unreported s.cur r hr
  have hnd := lstashed_nodup c.n s.temporal.unreported s.cur r hi.ndCur hi.ndStash
  simp only [lstep]
  rw [lcollect_eq c s r ts hr]
  cases hu : lstashed c.n s.temporal.unreported s.cur r with
  | none =>
    rw [lbuild_multi_none _ _ _ _ _ _ hf hu]
    have hpn : ∀ x, latestSince r h x = none := by
      intro x; rw [← hi.pend x]; have := hfold x; rw [hu] at this
      have h0 : foldLat ((none : Option (List LMap)).getD []) none x = none := rfl
      rw [h0] at this
      simp only [lstash]; exact this.symm
    have hold : s.temporal.unreported r = none := by
      have hsome := lstashed_isSome c.n s.temporal.unreported s.cur r hr
      rw [hu] at hsome
      cases hx : s.temporal.unreported r with
      | none => rfl
      | some l => rw [hx] at hsome; simp at hsome
    have hlast := hi.lastStash hf hold
    refine ⟨trivial, ?_, hi.ndLast, ?_, ?_, ?_, ?_, fun hf' => by simp [hf] at hf'⟩
    · simp [lstash, hu]
    · intro x; simp [lstash, hu, foldLat, olat, latestSince, List.lookup]
    · intro x p hp; simp [lstash, hu, foldLat] at hp
    · intro hc x
      have h1 := hi.last hc x
      simp only [llastMap, hlast, Option.map_none, Option.getD_none, List.lookup] at h1 ⊢
      simp only [latestBefore, if_true]
      rw [latestRec_split r h x, hpn x]; exact h1
    · intro _ _; exact hlast
  | some lst =>
    obtain ⟨start, hb⟩ := lbuild_multi_some _ _ _ _ _ _ lst hf hu
    rw [hb]
    have hl : ∀ m ∈ lst, LNoDup m := by have := hnd; rw [hu] at this; simpa using this
    have hfl : ∀ x, foldLat lst none x = latestSince r h x := by
      intro x; have := hfold x; rw [hu] at this; simp only [Option.getD_some] at this
      rw [this]; exact hi.pend x
    refine ⟨trivial, ?_, ?_, ?_, ?_, ?_, ?_, fun hf' => by simp [hf] at hf'⟩
    · simp [lstash]
    · simp only [llastMap, setAt_same, Option.map_some, Option.getD_some]; exact LNoDup_lmergedFor _ _ _ _
    · intro x; simp [lstash, foldLat, olat, latestSince, List.lookup]
    · intro x p hp; simp [lstash, foldLat] at hp
    · intro hc x
      simp only [llastMap, setAt_same, Option.map_some, Option.getD_some, latestBefore, if_true]
      rw [hc, lookup_lmergedFor _ _ _ _ x hl hi.ndLast, hfl x, hi.last hc x]
      exact olat_since_before r h x hinc
    · intro _ hn; simp at hn

theorem linv_collect_fast (c : Cfg) (h : List LOp) (s : LStorage) (r ts : Nat) (hr : r < c.n)
    (hf : fastPath c.n (c.temp r) = true) (hi : LInv c h s r) :
    LInv c (.collect r ts :: h) (lstep c s (.collect r ts)).1 r := by
  have hns := hi.noStash hf
  have hd : c.temp r = .delta := ((fastPath_iff _ _).mp hf).2
  simp only [lstep]
  rw [lcollect_eq c s r ts hr]
  obtain ⟨start, hb⟩ := lbuild_fast _ _ s.temporal r ts s.cur hf
  rw [hb]
  by_cases he : s.cur.isEmpty
  · simp only [he, if_true]
    refine ⟨trivial, hi.ndStash, hi.ndLast, ?_, ?_, fun hc => by simp [hd] at hc, hi.lastStash, fun _ => hns⟩
    · intro x; simp [lstash, hns, foldLat, olat, latestSince, List.lookup]
    · intro x p hp; simp [lstash, hns, foldLat] at hp
  · simp only [he, Bool.false_eq_true, if_false]
    refine ⟨trivial, hi.ndStash, ?_, ?_, ?_, fun hc => by simp [hd] at hc, ?_, fun _ => hns⟩
    · simpa [llastMap] using hi.ndLast
    · intro x; simp [lstash, hns, foldLat, olat, latestSince, List.lookup]
    · intro x p hp; simp [lstash, hns, foldLat] at hp
    · intro hf'; simp [hf] at hf'

theorem increasing_tail {op : LOp} {o : List LOp} (h : Increasing (op :: o)) : Increasing o := by
  cases op with
  | record a x => exact h.2
  | collect r ts => exact h

theorem linv_step (c : Cfg) (h : List LOp) (s : LStorage) (op : LOp) (hinc : Increasing (op :: h))
    (hall : ∀ r, r < c.n → LInv c h s r) : ∀ r, r < c.n → LInv c (op :: h) (lstep c s op).1 r := by
  intro r hr
  cases op with
  | record a x => exact linv_record c h s r a x hinc.1 (hall r hr)
  | collect r' ts =>
    by_cases hv : r' < c.n
    · by_cases he : r' = r
      · subst he
        cases hf : fastPath c.n (c.temp r') with
        | true => exact linv_collect_fast c h s r' ts hv hf (hall r' hv)
        | false => exact linv_collect_self c h s r' ts hv hf hinc (hall r' hv)
      · cases hf : fastPath c.n (c.temp r') with
        | true =>
          have hn : c.n = 1 := ((fastPath_iff _ _).mp hf).1
          omega
        | false => exact linv_collect_other c h s r' ts hv hf r hr he (hall r hr)
    · exact linv_collect_invalid c h s r' ts hv r hr (hall r hr)

/-- the gauge invariant holds after every history with increasing sample times -/
theorem linv_run (c : Cfg) : ∀ (h : List LOp), Increasing h → ∀ r, r < c.n → LInv c h (lrunRev c h) r
  | [], _, r, _ => linv_init c r
  | op :: h, hinc, r, hr => by
    have := linv_step c h (lrunRev c h) op hinc (fun r' hr' => linv_run c h (increasing_tail hinc) r' hr') r hr
    exact this

def lpoints : Option LData → LMap
  | none => []
  | some md => md.points

/-- what a collection reports, key by key, in a consistent state -/
theorem lcollect_lookup (c : Cfg) (h : List LOp) (s : LStorage) (r ts : Nat) (hr : r < c.n) (hinc : Increasing h)
    (hi : LInv c h s r) (x : Nat) :
    (lpoints (lcollect c s r ts).2).lookup x =
      match c.temp r with
      | .cumulative => latestRec h x
      | .delta => latestSince r h x := by
  rw [lcollect_eq c s r ts hr]
  cases hf : fastPath c.n (c.temp r) with
  | true =>
    have hns := hi.noStash hf
    have hd : c.temp r = .delta := ((fastPath_iff _ _).mp hf).2
    obtain ⟨start, hb⟩ := lbuild_fast _ _ s.temporal r ts s.cur hf
    rw [hb, hd]
    have hp := hi.pend x
    simp only [lstash, hns, Option.getD_none, foldLat, List.foldl_nil] at hp
    have hcur : s.cur.lookup x = latestSince r h x := by
      rw [← hp]; cases s.cur.lookup x <;> simp [olat, later']
    by_cases he : s.cur.isEmpty
    · have : s.cur = [] := List.isEmpty_iff.mp he
      simp only [he, if_true, lpoints]
      rw [← hcur, this]
    · simp only [he, Bool.false_eq_true, if_false, lpoints]; exact hcur
  | false =>
    have hfold := lstashed_fold c.n s.temporal.unreported s.cur r hr
    have hnd := lstashed_nodup c.n s.temporal.unreported s.cur r hi.ndCur hi.ndStash
    cases hu : lstashed c.n s.temporal.unreported s.cur r with
    | none =>
      rw [lbuild_multi_none _ _ _ _ _ _ hf hu]
      have hpn : latestSince r h x = none := by
        rw [← hi.pend x]; have := hfold x; rw [hu] at this
        have h0 : foldLat ((none : Option (List LMap)).getD []) none x = none := rfl
        rw [h0] at this
        simp only [lstash]; exact this.symm
      have hold : s.temporal.unreported r = none := by
        have hsome := lstashed_isSome c.n s.temporal.unreported s.cur r hr
        rw [hu] at hsome
        cases hx : s.temporal.unreported r with
        | none => rfl
        | some l => rw [hx] at hsome; simp at hsome
      have hlast := hi.lastStash hf hold
      simp only [lpoints, List.lookup]
      cases ht : c.temp r with
      | delta => exact hpn.symm
      | cumulative =>
        have h1 := hi.last ht x
        simp only [llastMap, hlast, Option.map_none, Option.getD_none, List.lookup] at h1
        simp only []
        rw [latestRec_split r h x, hpn]; exact h1
    | some lst =>
      obtain ⟨start, hb⟩ := lbuild_multi_some _ _ _ _ _ _ lst hf hu
      rw [hb]
      have hl : ∀ m ∈ lst, LNoDup m := by have := hnd; rw [hu] at this; simpa using this
      have hfl : foldLat lst none x = latestSince r h x := by
        have := hfold x; rw [hu] at this; simp only [Option.getD_some] at this
        rw [this]; exact hi.pend x
      simp only [lpoints]
      rw [lookup_lmergedFor _ _ _ _ x hl hi.ndLast]
      cases ht : c.temp r with
      | delta => exact hfl
      | cumulative =>
        simp only []
        rw [hfl, hi.last ht x]; exact olat_since_before r h x hinc

/-- **gauge_reports_latest** (storage level, every history): with increasing sample times, after every history of
    records and collections by any readers, a cumulative reader receives for every attribute set the most recently
    recorded sample (and a point exactly for the sets ever recorded); a delta reader receives the most recent
    sample of its own interval. -/
theorem gauge_reports_latest (c : Cfg) (h : List LOp) (hinc : Increasing h) (r ts : Nat) (hr : r < c.n) (x : Nat) :
    (lpoints (lcollect c (lrunRev c h) r ts).2).lookup x =
      match c.temp r with
      | .cumulative => latestRec h x
      | .delta => latestSince r h x :=
  lcollect_lookup c h _ r ts hr hinc (linv_run c h hinc r hr) x

/-- the reported map has one point per attribute set -/
theorem gauge_points_nodup (c : Cfg) (h : List LOp) (hinc : Increasing h) (r ts : Nat) (hr : r < c.n) :
    LNoDup (lpoints (lcollect c (lrunRev c h) r ts).2) := by
  have hi := linv_run c h hinc r hr
  rw [lcollect_eq c _ r ts hr]
  cases hf : fastPath c.n (c.temp r) with
  | true =>
    obtain ⟨start, hb⟩ := lbuild_fast _ _ (lrunRev c h).temporal r ts (lrunRev c h).cur hf
    rw [hb]
    by_cases he : (lrunRev c h).cur.isEmpty
    · simp [he, lpoints, LNoDup]
    · simp only [he, Bool.false_eq_true, if_false, lpoints]; exact hi.ndCur
  | false =>
    cases hu : lstashed c.n (lrunRev c h).temporal.unreported (lrunRev c h).cur r with
    | none => rw [lbuild_multi_none _ _ _ _ _ _ hf hu]; simp [lpoints, LNoDup]
    | some lst =>
      obtain ⟨start, hb⟩ := lbuild_multi_some _ _ _ _ _ _ lst hf hu
      rw [hb]; exact LNoDup_lmergedFor _ _ _ _

/-! ### synchronous gauges (ABI v2): always reported cumulatively -/

/-- the configuration in which every reader is treated as cumulative (`MetricCollector::GetAggregationTemporality`
    answers cumulative for a synchronous gauge whatever the reader asks for) -/
def allCumulative (c : Cfg) : Cfg := ⟨c.temps.map fun _ => .cumulative⟩

theorem allCumulative_n (c : Cfg) : (allCumulative c).n = c.n := by simp [allCumulative, Cfg.n]

theorem allCumulative_temp (c : Cfg) (r : Nat) : (allCumulative c).temp r = .cumulative := by
  simp only [allCumulative, Cfg.temp, List.getD_eq_getElem?_getD, List.getElem?_map]
  cases c.temps[r]? <;> rfl

def sgOfL (s : LStorage) : SGaugeStorage := ⟨s.cur, s.temporal⟩

/-- run of the synchronous gauge storage of the model over a history -/
def sgrunRev (c : Cfg) : List LOp → SGaugeStorage
  | [] => SGaugeStorage.init
  | .record a x :: o => sgrecord (sgrunRev c o) a x
  | .collect r ts :: o => (sgcollect c (sgrunRev c o) r ts).1

theorem sgcollect_eq (c : Cfg) (s : LStorage) (r ts : Nat) :
    sgcollect c (sgOfL s) r ts = (sgOfL (lcollect (allCumulative c) s r ts).1, (lcollect (allCumulative c) s r ts).2) := by
  simp only [sgcollect, lcollect, allCumulative_n, allCumulative_temp, sgOfL]
  split <;> rfl

theorem sgrun_eq (c : Cfg) : ∀ h : List LOp, sgrunRev c h = sgOfL (lrunRev (allCumulative c) h)
  | [] => rfl
  | .record a x :: o => by simp only [sgrunRev, sgrun_eq c o, lrunRev, lstep]; rfl
  | .collect r ts :: o => by simp only [sgrunRev, sgrun_eq c o, lrunRev, lstep, sgcollect_eq]

/-- **gauge_reports_latest_sync**: for every history of `Record` calls and collections by any readers (delta or
    cumulative), with increasing sample times, a synchronous gauge reports, per attribute set, the most recently
    recorded value — and a point for exactly the sets ever recorded. -/
theorem gauge_reports_latest_sync (c : Cfg) (h : List LOp) (hinc : Increasing h) (r ts : Nat) (hr : r < c.n) (x : Nat) :
    (lpoints (sgcollect c (sgrunRev c h) r ts).2).lookup x = latestRec h x := by
  rw [sgrun_eq, sgcollect_eq]
  have := gauge_reports_latest (allCumulative c) h hinc r ts (by rw [allCumulative_n]; exact hr) x
  rw [allCumulative_temp] at this
  exact this

/-! ### observable gauges: `AsyncMetricStorage` with last-value aggregations -/

/-- one collection cycle as the observable gauge's storage sees it: the observations (already stamped with their
    sample times) recorded by the callbacks, then the collection -/
structure GCycle where
  obs : List (Nat × Sample)
  r : Nat
  ts : Nat

def gcycle (c : Cfg) (s : GaugeStorage) (cy : GCycle) : GaugeStorage × Option LData :=
  gcollect c (cy.obs.foldl (fun s kv => grecordOne s kv.1 kv.2) s) cy.r cy.ts

def grunRev (c : Cfg) : List GCycle → GaugeStorage
  | [] => GaugeStorage.init
  | cy :: o => (gcycle c (grunRev c o) cy).1

/-- the cycle's observations as record operations, most recent first -/
def gRecs (cy : GCycle) : List LOp := (cy.obs.map fun kv => LOp.record kv.1 kv.2).reverse

/-- the history of records and collections a history of cycles amounts to -/
def translateG : List GCycle → List LOp
  | [] => []
  | cy :: o => .collect cy.r cy.ts :: (gRecs cy ++ translateG o)

theorem lrunRev_records (c : Cfg) : ∀ (obs : List (Nat × Sample)) (rest : List LOp),
    lrunRev c ((obs.map fun kv => LOp.record kv.1 kv.2).reverse ++ rest) =
      { lrunRev c rest with cur := obs.foldl (fun m kv => lset m kv.1 kv.2) (lrunRev c rest).cur }
  | [], rest => by simp
  | kv :: t, rest => by
    have ih := lrunRev_records c t (LOp.record kv.1 kv.2 :: rest)
    simp only [List.map_cons, List.reverse_cons, List.append_assoc, List.singleton_append, List.foldl_cons]
    rw [ih]; rfl

theorem increasing_records : ∀ (obs : List (Nat × Sample)) (rest : List LOp),
    Increasing ((obs.map fun kv => LOp.record kv.1 kv.2).reverse ++ rest) → Increasing rest
  | [], _, h => by simpa using h
  | kv :: t, rest, h => by
    simp only [List.map_cons, List.reverse_cons, List.append_assoc, List.singleton_append] at h
    exact (increasing_records t _ h).2

/-- the record loop of the observable gauge: with sample times above everything stored, the delta map is updated
    exactly like a synchronous gauge's current map (`prev->Diff(new)` is `new`) — no hypothesis about repeated
    attribute sets is needed: the later observation simply wins -/
theorem grecord_fold : ∀ (obs : List (Nat × Sample)) (s : GaugeStorage) (rest : List LOp),
    (∀ x p, s.cumulative.lookup x = some p → p.ts ≤ maxTs rest) →
    Increasing ((obs.map fun kv => LOp.record kv.1 kv.2).reverse ++ rest) →
    (obs.foldl (fun s kv => grecordOne s kv.1 kv.2) s).delta = obs.foldl (fun m kv => lset m kv.1 kv.2) s.delta ∧
    (obs.foldl (fun s kv => grecordOne s kv.1 kv.2) s).temporal = s.temporal ∧
    (∀ x p, (obs.foldl (fun s kv => grecordOne s kv.1 kv.2) s).cumulative.lookup x = some p →
        p.ts ≤ maxTs ((obs.map fun kv => LOp.record kv.1 kv.2).reverse ++ rest))
  | [], s, rest, hb, _ => ⟨rfl, rfl, by simpa using hb⟩
  | kv :: t, s, rest, hb, hinc => by
    simp only [List.map_cons, List.reverse_cons, List.append_assoc, List.singleton_append] at hinc ⊢
    have hinc1 : Increasing (LOp.record kv.1 kv.2 :: rest) := increasing_records t _ hinc
    have hone : (grecordOne s kv.1 kv.2).delta = lset s.delta kv.1 kv.2 ∧
        (grecordOne s kv.1 kv.2).temporal = s.temporal ∧
        (grecordOne s kv.1 kv.2).cumulative = lset s.cumulative kv.1 kv.2 := by
      unfold grecordOne
      cases hl : s.cumulative.lookup kv.1 with
      | none => exact ⟨rfl, rfl, rfl⟩
      | some p =>
        have := hb kv.1 p hl
        have hlt : ¬ p.ts > kv.2.ts := by have := hinc1.1; omega
        simp [later, hlt]
    have hb' : ∀ x p, (grecordOne s kv.1 kv.2).cumulative.lookup x = some p → p.ts ≤ maxTs (LOp.record kv.1 kv.2 :: rest) := by
      intro x p hp
      rw [hone.2.2, lookup_lset] at hp
      simp only [maxTs]
      split at hp
      · simp only [Option.some.injEq] at hp; subst hp; exact Nat.le_max_left ..
      · exact Nat.le_trans (hb x p hp) (Nat.le_max_right ..)
    obtain ⟨i1, i2, i3⟩ := grecord_fold t (grecordOne s kv.1 kv.2) (LOp.record kv.1 kv.2 :: rest) hb' hinc
    simp only [List.foldl_cons]
    exact ⟨by rw [i1, hone.1], by rw [i2, hone.2.1], i3⟩

/-- the observable gauge's storage and the last-value storage it is compared with -/
structure GSim (h : List GCycle) (s : GaugeStorage) (t : LStorage) : Prop where
  delta : s.delta = []
  cur : t.cur = []
  temporal : s.temporal = t.temporal
  bound : ∀ x p, s.cumulative.lookup x = some p → p.ts ≤ maxTs (translateG h)

theorem gauge_cycle_step (c : Cfg) (o : List GCycle) (cy : GCycle) (hv : cy.r < c.n)
    (hinc : Increasing (translateG (cy :: o))) (s : GaugeStorage) (t : LStorage) (ht : t = lrunRev c (translateG o))
    (sim : GSim o s t) :
    (gcycle c s cy).2 = (lcollect c (lrunRev c (gRecs cy ++ translateG o)) cy.r cy.ts).2 ∧
    GSim (cy :: o) (gcycle c s cy).1 (lrunRev c (translateG (cy :: o))) := by
  have hinc' : Increasing (gRecs cy ++ translateG o) := hinc
  obtain ⟨g1, g2, g3⟩ := grecord_fold cy.obs s (translateG o) sim.bound hinc'
  have hl := lrunRev_records c cy.obs (translateG o)
  rw [← ht, sim.cur] at hl
  rw [sim.delta] at g1
  have hrun : lrunRev c (translateG (cy :: o)) = (lcollect c (lrunRev c (gRecs cy ++ translateG o)) cy.r cy.ts).1 := rfl
  have hg : gcycle c s cy =
      ({ (cy.obs.foldl (fun s kv => grecordOne s kv.1 kv.2) s) with delta := [], temporal :=
          (lbuild c.n (c.temp cy.r) t.temporal cy.r cy.ts (cy.obs.foldl (fun m kv => lset m kv.1 kv.2) [])).1 },
       (lbuild c.n (c.temp cy.r) t.temporal cy.r cy.ts (cy.obs.foldl (fun m kv => lset m kv.1 kv.2) [])).2) := by
    simp only [gcycle, gcollect, hv, if_true, g1, g2, sim.temporal]
  have hlc := lcollect_eq c (lrunRev c (gRecs cy ++ translateG o)) cy.r cy.ts hv
  have hl' : lrunRev c (gRecs cy ++ translateG o) = { t with cur := cy.obs.foldl (fun m kv => lset m kv.1 kv.2) [] } := hl
  rw [hrun, hg, hlc, hl']
  refine ⟨rfl, ⟨rfl, rfl, rfl, ?_⟩⟩
  intro x p hp
  simp only [translateG, maxTs]
  exact g3 x p hp

/-- **gauge_reports_latest_observable_cycle**: for every history of collection cycles by any readers, with
    increasing sample times, an observable gauge reports to a cumulative reader, per attribute set, the most
    recently observed value, and to a delta reader the most recently observed value of its own interval. -/
theorem gauge_reports_latest_observable_cycle (c : Cfg) : ∀ (o : List GCycle) (cy : GCycle),
    (∀ y ∈ cy :: o, y.r < c.n) → Increasing (translateG (cy :: o)) → ∀ x,
    (lpoints (gcycle c (grunRev c o) cy).2).lookup x =
      match c.temp cy.r with
      | .cumulative => latestRec (gRecs cy ++ translateG o) x
      | .delta => latestSince cy.r (gRecs cy ++ translateG o) x := by
  have hsim : ∀ (o : List GCycle), (∀ y ∈ o, y.r < c.n) → Increasing (translateG o) →
      GSim o (grunRev c o) (lrunRev c (translateG o)) := by
    intro o
    induction o with
    | nil => intro _ _; exact ⟨rfl, rfl, rfl, by simp [grunRev, GaugeStorage.init, List.lookup]⟩
    | cons cy o ih =>
      intro hv hinc
      have hinc_o : Increasing (translateG o) := increasing_records cy.obs _ (show Increasing (gRecs cy ++ translateG o) from hinc)
      exact (gauge_cycle_step c o cy (hv cy (List.mem_cons_self ..)) hinc _ _ rfl
        (ih (fun y hy => hv y (List.mem_cons_of_mem _ hy)) hinc_o)).2
  intro o cy hv hinc x
  have hinc' : Increasing (gRecs cy ++ translateG o) := hinc
  have hinc_o : Increasing (translateG o) := increasing_records cy.obs _ hinc'
  have hr := hv cy (List.mem_cons_self ..)
  rw [(gauge_cycle_step c o cy hr hinc _ _ rfl (hsim o (fun y hy => hv y (List.mem_cons_of_mem _ hy)) hinc_o)).1]
  exact gauge_reports_latest c _ hinc' cy.r cy.ts hr x

/-- in particular: an attribute set observed in this cycle is reported with the value just observed (the last
    observation of the cycle for that set), to delta and cumulative readers alike -/
theorem gauge_reports_this_cycle (c : Cfg) (o : List GCycle) (cy : GCycle) (pre : List (Nat × Sample)) (x : Nat)
    (s : Sample) (hobs : cy.obs = pre ++ [(x, s)]) (hv : ∀ y ∈ cy :: o, y.r < c.n)
    (hinc : Increasing (translateG (cy :: o))) :
    (lpoints (gcycle c (grunRev c o) cy).2).lookup x = some s := by
  rw [gauge_reports_latest_observable_cycle c o cy hv hinc x]
  have : gRecs cy = LOp.record x s :: (pre.map fun kv => LOp.record kv.1 kv.2).reverse := by
    simp [gRecs, hobs]
  rw [this]
  cases c.temp cy.r <;> simp [latestRec, latestSince]

/-- the clock hypothesis is satisfiable, and the spec picks the later sample -/
example : Increasing [.record 1 ⟨7, 3⟩, .collect 0 1, .record 1 ⟨5, 2⟩, .record 2 ⟨9, 1⟩] ∧
    latestRec [.record 1 ⟨7, 3⟩, .collect 0 1, .record 1 ⟨5, 2⟩, .record 2 ⟨9, 1⟩] 1 = some ⟨7, 3⟩ := by
  refine ⟨?_, by decide⟩
  simp [Increasing, maxTs]

/-! ## What the theorems assume about the source text (re-extracted on every run into `Gen/MetricsTemporal.lean`) -/

/-- `AsyncMetricStorage::Record` computes `prev->Diff(new)` and `Set`s both maps; the last-value `Merge`/`Diff` keep
    `this` exactly when it is strictly later; `Observe` is one loop over `callbacks_` with one invocation per value
    type branch -/
theorem gen_async_facts : Gen.asyncRecordIsDiffAndSet = true ∧ Gen.lastValueKeepsThisWhenStrictlyLater = true ∧
    Gen.observeLoops = 1 ∧ Gen.observeInvocationSites = 2 ∧ Gen.longSumDiffSign = -1 := by decide

end Otel.C17
