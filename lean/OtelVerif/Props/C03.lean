import OtelVerif.Lemmas.Batch.Main
import OtelVerif.Lemmas.SpinLock
import OtelVerif.Gen.Batch
/-! # C03 — Exporters are driven one call at a time and within the configured batch bounds

Batch processors: theorems about the protocol model `Model/BatchAbs.lean` (every schedule, any number of producers,
`ForceFlush` and `Shutdown` callers, every `max_queue_size`, every `1 ≤ max_export_batch_size`), which the refinement
check (`props/batchcommon.py` + `Model/BatchRefine.lean`) ties to the real processors event by event.
Simple processors: `Export` happens between `lock()` and `unlock()` of the processor's `SpinLockMutex`; the spin-lock
model of C11 is stepped against the real `SimpleSpanProcessor` / `SimpleLogRecordProcessor` (the critical section *is* the
exporter call) and its mutual-exclusion theorem is the non-re-entrancy statement. -/
namespace Otel.C03
open Otel Otel.Batch

theorem gen_batch_shape : Gen.batchSpanOneSnapshot = true ∧ Gen.batchLogOneSnapshot = true := by decide

section batch
variable {maxQ maxB : Nat} (hb : 1 ≤ maxB) {as : List Act} {s : St} (h : run (init maxQ maxB) as = some s)
include hb h

/-- **every batch ever delivered is non-empty and holds at most `max_export_batch_size` records** — at every point of
    the processor's life, whatever `ForceFlush` / `Shutdown` calls came before (D01: the as-is code took the whole queue
    once a `ForceFlush` had ever been issued; D23: without one it read the size twice) -/
theorem batch_bounds : ∀ b ∈ s.batches, 1 ≤ b ∧ b ≤ maxB := by
  have hI := reachable_inv maxQ maxB hb as s h
  have hm : s.maxB = maxB := (cfg_run _ _ as h).1
  intro b hbm
  rw [← hm]; exact hI.batches b hbm

/-- **`Export` is never re-entered**: at most one `exporter.Export` call is in flight, and it is in flight exactly
    while the worker is inside it (producers, `ForceFlush` and `Shutdown` callers never call `Export`) -/
theorem export_not_reentrant_batch : s.inExport ≤ 1 ∧ (s.inExport = 1 ↔ ∃ r n T R num, s.wpc = .exportE r n T R num) := by
  have hw := (reachable_inv maxQ maxB hb as s h).w
  unfold WInv at hw
  cases hpc : s.wpc <;> rw [hpc] at hw <;> simp only at hw
  all_goals first
    | (have : s.inExport = 1 := hw.2.1; exact ⟨by omega, fun _ => ⟨_, _, _, _, _, rfl⟩, fun _ => this⟩)
    | (have : s.inExport = 0 := by first | exact hw.2.1 | exact hw.2 | exact hw.1.2.1
       refine ⟨by omega, fun h1 => by omega, fun ⟨_, _, _, _, _, h2⟩ => by cases h2⟩)

/-- what the worker hands to the exporter is exactly what it took from the queue: outside the window between
    `tail_ += n` and the return of `Export`, `exported = tail`; inside it the batch in hand is the difference -/
theorem exports_are_consumed : s.exported ≤ s.tail ∧ s.tail ≤ s.head ∧
    ((∀ r n T R num, s.wpc ≠ .exportB r n T R num ∧ s.wpc ≠ .exportE r n T R num) → s.exported = s.tail) := by
  have hI := reachable_inv maxQ maxB hb as s h
  refine ⟨hI.expLe, hI.tailLe, ?_⟩
  intro hne
  have hw := hI.w
  unfold WInv at hw
  cases hpc : s.wpc <;> rw [hpc] at hw <;> simp only at hw
  all_goals first
    | exact hw.1
    | exact hw.1.1
    | (exfalso; exact (hne _ _ _ _ _).1 hpc)
    | (exfalso; exact (hne _ _ _ _ _).2 hpc)

end batch

/-! ## Simple processors -/

open Otel.SpinLock in
/-- `SimpleSpanProcessor::OnEnd` / `SimpleLogRecordProcessor::OnEmit` call `exporter_->Export` while holding `lock_`
    (the harness steps the real processors against the spin-lock model with the exporter call as the critical
    section): no two threads are inside `Export` at once, for every schedule and any number of threads -/
theorem export_not_reentrant_simple (acts : List SpinLock.Act) (s : SpinLock.St)
    (h : SpinLock.run SpinLock.init acts = some s) (p q : Nat) (hp : Holds s p) (hq : Holds s q) : p = q :=
  (SpinLock.inv_run _ _ acts SpinLock.inv_init h).unique p q hp hq

/-! ## Non-vacuity -/
example : (run (init 2 1) [.pStep 0 false, .pStep 0 false, .pStep 0 false, .wWake, .wStep, .wStep, .wStep, .wStep, .wStep, .wStep]).map
    (fun s => (s.batches, s.exported, s.inExport)) = some ([1], 1, 0) := by decide

end Otel.C03
