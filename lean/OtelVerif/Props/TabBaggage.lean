import OtelVerif.Model.TabBaggage
import OtelVerif.Gen.TabBaggage
import OtelVerif.Lemmas.Tab
/-! # The model equals the code's graph: `UrlEncode`, `UrlDecode`, `IsValidKey`, `IsValidValue` of `baggage.h` -/
namespace Otel.Tab
open Otel

/-- the percent-encoding of every byte (one or three characters) -/
theorem tab_bgEncode : ∀ b : UInt8, TabModel.bgEncode b = Gen.Tab.bgEncode b := eq_table _ _ _ (by decide +kernel)
theorem tab_bgDecode1 : ∀ b : UInt8, TabModel.bgDecode1 b = Gen.Tab.bgDecode1 b := forall_byte _ (by decide +kernel)
theorem tab_bgDecodePct1 : ∀ b : UInt8, TabModel.bgDecodePct1 b = Gen.Tab.bgDecodePct1 b := forall_byte _ (by decide +kernel)
theorem tab_bgValidKey1 : ∀ b : UInt8, TabModel.bgValidKey1 b = Gen.Tab.bgValidKey1 b := forall_byte _ (by decide +kernel)
theorem tab_bgValidValue1 : ∀ b : UInt8, TabModel.bgValidValue1 b = Gen.Tab.bgValidValue1 b := forall_byte _ (by decide +kernel)

def hexChars' : List UInt8 := [48, 49, 50, 51, 52, 53, 54, 55, 56, 57, 97, 98, 99, 100, 101, 102, 65, 66, 67, 68, 69, 70]

/-- `%XY` for every pair of hex digits (484) … -/
theorem tab_bgDecodePct_digits : ∀ a ∈ hexChars', ∀ b ∈ hexChars', TabModel.bgDecodePct a b = Gen.Tab.bgDecodePct a b := by
  decide +kernel
/-- … and for every byte in either position beside `4` and the non-digit `g` (4 x 256).  (All 65 536 pairs of the table
    are compared with the compiled model on every run by `tools/tabdiff.py`.) -/
theorem tab_bgDecodePct_cross : ∀ b : UInt8, ∀ r ∈ [(52 : UInt8), 103],
    TabModel.bgDecodePct r b = Gen.Tab.bgDecodePct r b ∧ TabModel.bgDecodePct b r = Gen.Tab.bgDecodePct b r :=
  forall_byte _ (by decide +kernel)

end Otel.Tab
