import OtelVerif.Props.C17
/-! # C17 at the meter: `Meter::Collect` feeds every observable counter's storage exactly the measurements of the
    callbacks registered on its instrument, once each

This lifts the per-storage theorems of `Props/C17.lean` (stated over the cycles a storage sees) to histories of the
meter model (`AMeter`, `amstep`): `cyclesOf` is the projection of a meter history on instrument `i`. -/
namespace Otel.C17
open Otel.Temporal Otel.C06

/-- the kinds of the instruments created in a history (most recent operation first), in creation order -/
def kindsOf : List AOp → List OKind
  | [] => []
  | .create k :: o => kindsOf o ++ [k]
  | .addcb _ _ :: o => kindsOf o
  | .rmcb _ _ :: o => kindsOf o
  | .destroy _ :: o => kindsOf o
  | .grec _ _ _ :: o => kindsOf o
  | .collect _ _ :: o => kindsOf o

def collectsInA : List AOp → Nat
  | [] => 0
  | .collect _ _ :: o => collectsInA o + 1
  | .create _ :: o => collectsInA o
  | .addcb _ _ :: o => collectsInA o
  | .rmcb _ _ :: o => collectsInA o
  | .destroy _ :: o => collectsInA o
  | .grec _ _ _ :: o => collectsInA o

/-- what one invocation records into the sum storage of instrument `i` of kind `k` -/
def recOf (k : Option OKind) (script : Script) (inv : Reg) : Option DMap :=
  match k with
  | some .counter => some (ignoreNegative (measurements (script inv.cb)))
  | some .updown => some (measurements (script inv.cb))
  | _ => none

/-- **Specification**: the measurement maps recorded into instrument `i`'s storage by one `Observe`: one per record
    registered on `i`, in registration order -/
def recsFor (k : Option OKind) (i : Nat) (g : Registry) (script : Script) : List DMap :=
  (g.filter fun inv => inv.instr == i).filterMap (recOf k script)

/-- **the cycles instrument `i`'s sum storage sees** in a meter history -/
def cyclesOf (i : Nat) : List AOp → List Cycle
  | [] => []
  | .collect r script :: o =>
    ⟨recsFor ((kindsOf o)[i]?) i (rrunRev (regOps o)) script, r, collectsInA o + 1⟩ :: cyclesOf i o
  | .create _ :: o => cyclesOf i o
  | .addcb _ _ :: o => cyclesOf i o
  | .rmcb _ _ :: o => cyclesOf i o
  | .destroy _ :: o => cyclesOf i o
  | .grec _ _ _ :: o => cyclesOf i o

/-- the body of the loop in `observe` -/
def observeOne (script : Script) (m : AMeter) (inv : Reg) : AMeter :=
  let ms := measurements (script inv.cb)
  match m.kinds[inv.instr]? with
  | some .gauge =>
    let res := grecordAll (m.gauges inv.instr) m.clock ms
    { m with gauges := setAt m.gauges inv.instr res.1, clock := res.2 }
  | some .syncGauge => m
  | some .counter => { m with sums := setAt m.sums inv.instr (recordAll (m.sums inv.instr) (ignoreNegative ms)) }
  | some .updown => { m with sums := setAt m.sums inv.instr (recordAll (m.sums inv.instr) ms) }
  | none => m

theorem observe_eq_foldl (m : AMeter) (script : Script) :
    observe m script = (invocations m.registry).foldl (observeOne script) m := rfl

theorem observeOne_frame (script : Script) (m : AMeter) (inv : Reg) :
    (observeOne script m inv).kinds = m.kinds ∧ (observeOne script m inv).collects = m.collects := by
  unfold observeOne
  cases hk : m.kinds[inv.instr]? with
  | none => simp
  | some k => cases k <;> simp

theorem observeOne_sums (script : Script) (m : AMeter) (inv : Reg) (i : Nat) :
    (observeOne script m inv).sums i =
      if inv.instr = i then
        match recOf (m.kinds[i]?) script inv with
        | some ms => recordAll (m.sums i) ms
        | none => m.sums i
      else m.sums i := by
  unfold observeOne
  by_cases hi : inv.instr = i
  · subst hi
    simp only [if_true]
    cases hk : m.kinds[inv.instr]? with
    | none => simp [recOf]
    | some k => cases k <;> simp [recOf, setAt]
  · simp only [hi, if_false]
    have hne : i ≠ inv.instr := fun e => hi e.symm
    cases hk : m.kinds[inv.instr]? with
    | none => simp
    | some k => cases k <;> simp [setAt_other _ _ hne]

/-- the loop of `observe`, seen from instrument `i`'s sum storage -/
theorem foldl_observe_sums (script : Script) (i : Nat) : ∀ (l : Registry) (m : AMeter),
    (l.foldl (observeOne script) m).kinds = m.kinds ∧ (l.foldl (observeOne script) m).collects = m.collects ∧
    (l.foldl (observeOne script) m).sums i = (recsFor (m.kinds[i]?) i l script).foldl recordAll (m.sums i)
  | [], m => ⟨rfl, rfl, rfl⟩
  | inv :: t, m => by
    obtain ⟨f1, f2⟩ := observeOne_frame script m inv
    obtain ⟨i1, i2, i3⟩ := foldl_observe_sums script i t (observeOne script m inv)
    simp only [List.foldl_cons]
    refine ⟨i1.trans f1, i2.trans f2, ?_⟩
    rw [i3, f1, observeOne_sums]
    by_cases hi : inv.instr = i
    · have hb : (inv.instr == i) = true := by simp [hi]
      simp only [hi, if_true, recsFor, List.filter_cons, hb, List.filterMap_cons]
      have hb' : (i == i) = true := by simp
      cases hr : recOf (m.kinds[i]?) script inv with
      | none => simp [hi ▸ hb', hr]
      | some ms => simp [hi ▸ hb', hr]
    · have hb : (inv.instr == i) = false := by simp [hi]
      simp only [hi, if_false, recsFor, List.filter_cons, hb]
      rfl

/-- the meter state is consistent with history `h`, from the point of view of instrument `i`'s sum storage -/
structure AMInv (c : Cfg) (i : Nat) (h : List AOp) (m : AMeter) : Prop where
  kinds : m.kinds = kindsOf h
  collects : m.collects = collectsInA h
  sums : m.sums i = (arunRev c (cyclesOf i h)).1

theorem aminv_step (c : Cfg) (i : Nat) (h : List AOp) (m : AMeter) (op : AOp) (hreg : m.registry = rrunRev (regOps h))
    (hi : AMInv c i h m) : AMInv c i (op :: h) (amstep c m op) := by
  cases op with
  | create k => exact ⟨by simp [amstep, kindsOf, hi.kinds], hi.collects, hi.sums⟩
  | addcb j cb => exact ⟨hi.kinds, hi.collects, hi.sums⟩
  | rmcb j cb => exact ⟨hi.kinds, hi.collects, hi.sums⟩
  | destroy j => exact ⟨hi.kinds, hi.collects, hi.sums⟩
  | grec j a v =>
    simp only [amstep]
    cases hk : m.kinds[j]? with
    | none => exact ⟨hi.kinds, hi.collects, hi.sums⟩
    | some k => cases k <;> exact ⟨hi.kinds, hi.collects, hi.sums⟩
  | collect r script =>
    obtain ⟨o1, o2, o3⟩ := foldl_observe_sums script i (invocations m.registry) m
    simp only [amstep, amcollect, observe_eq_foldl]
    refine ⟨o1.trans hi.kinds, by simp [collectsInA, o2, hi.collects], ?_⟩
    simp only [cyclesOf, arunRev, acycle]
    rw [o3, hi.sums, hi.kinds, hi.collects]
    simp only [invocations, hreg]

/-- **meter_sum_storage**: after every meter history, the storage of observable instrument `i` is in the state its
    own cycles lead to -/
theorem meter_sum_storage (c : Cfg) (i : Nat) : ∀ h : List AOp, AMInv c i h (amrunRev c h)
  | [] => ⟨rfl, rfl, rfl⟩
  | op :: h => aminv_step c i h _ op (meter_registry c h) (meter_sum_storage c i h)

/-- **meter_sum_output**: what a reader receives for observable counter / up-down counter `i` from a collection after
    meter history `h` is the output of that storage's next cycle -/
theorem meter_sum_output (c : Cfg) (i : Nat) (h : List AOp) (r : Nat) (script : Script) (k : OKind)
    (hk : (kindsOf h)[i]? = some k) (hsum : k = .counter ∨ k = .updown) :
    (amcollect c (amrunRev c h) r script).2.2 i =
      (cycleOut c (cyclesOf i h) ⟨recsFor (some k) i (rrunRev (regOps h)) script, r, collectsInA h + 1⟩).map Out.sum := by
  have hi := meter_sum_storage c i h
  obtain ⟨o1, o2, o3⟩ := foldl_observe_sums script i (invocations (amrunRev c h).registry) (amrunRev c h)
  simp only [amcollect, observe_eq_foldl, cycleOut, acycle]
  rw [o1, hi.kinds, hk, o3, hi.sums, hi.kinds, hk, hi.collects]
  simp only [invocations, meter_registry]
  rcases hsum with rfl | rfl <;> rfl

/-- **each callback's measurements reach its instrument once per collection**: a callback registered once on
    instrument `i` contributes exactly one measurement map to `i`'s cycle -/
theorem recsFor_length (k : OKind) (hsum : k = .counter ∨ k = .updown) (i : Nat) (g : Registry) (script : Script) :
    (recsFor (some k) i g script).length = (g.filter fun inv => inv.instr == i).length := by
  unfold recsFor
  generalize (g.filter fun inv => inv.instr == i) = l
  induction l with
  | nil => rfl
  | cons inv t ih => rcases hsum with rfl | rfl <;> simp [recOf, ih]

/-- the points of what a reader received for a sum instrument -/
def sumPoints : Option Out → DMap
  | some (.sum md) => md.points
  | _ => []

theorem sumPoints_map (o : Option MetricData) : sumPoints (o.map Out.sum) = pointsOf o := by
  cases o <;> rfl

/-- **observable_cumulative_is_reported_total, at the meter**: for every meter history (create / AddCallback /
    RemoveCallback / destroy / Collect by any readers with any scripts), under the D21 hypothesis for the cycles of
    instrument `i`, a cumulative reader's point for `a` is the total most recently reported for `a` by the callbacks
    registered on `i`. -/
theorem meter_observable_cumulative (c : Cfg) (i : Nat) (h : List AOp) (r : Nat) (script : Script) (k : OKind)
    (hk : (kindsOf h)[i]? = some k) (hsum : k = .counter ∨ k = .updown)
    (hcl : Clean c (⟨recsFor (some k) i (rrunRev (regOps h)) script, r, collectsInA h + 1⟩ :: cyclesOf i h))
    (hc : c.temp r = .cumulative) (a : Nat) :
    valAt (sumPoints ((amcollect c (amrunRev c h) r script).2.2 i)) a =
      lastObs (⟨recsFor (some k) i (rrunRev (regOps h)) script, r, collectsInA h + 1⟩ :: cyclesOf i h) a := by
  rw [meter_sum_output c i h r script k hk hsum, sumPoints_map]
  exact observable_cumulative_is_reported_total c _ _ hcl hc a

/-- **observable_delta_is_diff_from_own_last, at the meter** -/
theorem meter_observable_delta (c : Cfg) (i : Nat) (h : List AOp) (r : Nat) (script : Script) (k : OKind)
    (hk : (kindsOf h)[i]? = some k) (hsum : k = .counter ∨ k = .updown)
    (hcl : Clean c (⟨recsFor (some k) i (rrunRev (regOps h)) script, r, collectsInA h + 1⟩ :: cyclesOf i h))
    (hd : c.temp r = .delta) (a : Nat) :
    valAt (sumPoints ((amcollect c (amrunRev c h) r script).2.2 i)) a =
      lastObs (⟨recsFor (some k) i (rrunRev (regOps h)) script, r, collectsInA h + 1⟩ :: cyclesOf i h) a
        - givenTo r (cyclesOf i h) a := by
  rw [meter_sum_output c i h r script k hk hsum, sumPoints_map]
  exact observable_delta_is_diff_from_own_last c _ _ hcl hd a

/-- example: the meter-level hypotheses are satisfiable and the statement is not vacuous: one observable counter, one
    callback (id 3) reporting 10 then 25 for attribute set 1, a delta reader: it receives 10, then 15. -/
example :
    let c : Cfg := ⟨[.delta]⟩
    let s1 : Script := fun cb => if cb = 3 then [(1, 10)] else []
    let s2 : Script := fun cb => if cb = 3 then [(1, 25)] else []
    let h1 : List AOp := [.addcb 0 3, .create .counter]
    (valAt (sumPoints ((amcollect c (amrunRev c h1) 0 s1).2.2 0)) 1,
     valAt (sumPoints ((amcollect c (amrunRev c (.collect 0 s1 :: h1)) 0 s2).2.2 0)) 1) = (10, 15) := by decide

/-! ## Synchronous gauges at the meter -/

/-- the records and collections synchronous gauge `i` sees in a meter history; a sample carries the meter's sample
    clock at the moment of the `Record` (a proof device: the statement below only speaks about values) -/
def lopsOf (c : Cfg) (i : Nat) : List AOp → List LOp
  | [] => []
  | .grec j a v :: o =>
    if j = i ∧ (kindsOf o)[i]? = some .syncGauge then .record a ⟨v, (amrunRev c o).clock + 1⟩ :: lopsOf c i o
    else lopsOf c i o
  | .collect r _ :: o => .collect r (collectsInA o + 1) :: lopsOf c i o
  | .create _ :: o => lopsOf c i o
  | .addcb _ _ :: o => lopsOf c i o
  | .rmcb _ _ :: o => lopsOf c i o
  | .destroy _ :: o => lopsOf c i o

/-- **Specification**: the value most recently recorded on synchronous gauge `i` for attribute set `x` -/
def latestGaugeValue (i : Nat) : List AOp → Nat → Option Int
  | [], _ => none
  | .grec j a v :: o, x =>
    if j = i ∧ (kindsOf o)[i]? = some .syncGauge ∧ a = x then some v else latestGaugeValue i o x
  | .collect _ _ :: o, x => latestGaugeValue i o x
  | .create _ :: o, x => latestGaugeValue i o x
  | .addcb _ _ :: o, x => latestGaugeValue i o x
  | .rmcb _ _ :: o, x => latestGaugeValue i o x
  | .destroy _ :: o, x => latestGaugeValue i o x

theorem latestRec_lopsOf (c : Cfg) (i : Nat) (x : Nat) : ∀ h : List AOp,
    (latestRec (lopsOf c i h) x).map (·.v) = latestGaugeValue i h x
  | [] => rfl
  | .grec j a v :: o => by
    simp only [lopsOf, latestGaugeValue]
    by_cases hc : j = i ∧ (kindsOf o)[i]? = some .syncGauge
    · simp only [hc, and_self, if_true, latestRec, true_and]
      by_cases ha : a = x
      · simp [ha]
      · simp only [ha, if_false]; exact latestRec_lopsOf c i x o
    · have hc' : ¬ (j = i ∧ (kindsOf o)[i]? = some .syncGauge ∧ a = x) := fun h => hc ⟨h.1, h.2.1⟩
      simp only [hc, hc', if_false]; exact latestRec_lopsOf c i x o
  | .collect r s :: o => by simpa [lopsOf, latestGaugeValue, latestRec] using latestRec_lopsOf c i x o
  | .create k :: o => latestRec_lopsOf c i x o
  | .addcb _ _ :: o => latestRec_lopsOf c i x o
  | .rmcb _ _ :: o => latestRec_lopsOf c i x o
  | .destroy _ :: o => latestRec_lopsOf c i x o

theorem grecordAll_clock : ∀ (ms : DMap) (s : GaugeStorage) (clock : Nat), clock ≤ (grecordAll s clock ms).2
  | [], _, _ => Nat.le_refl _
  | (a, v) :: t, s, clock => by
    simp only [grecordAll]
    exact Nat.le_trans (Nat.le_succ _) (grecordAll_clock t _ _)

theorem observeOne_sg (script : Script) (m : AMeter) (inv : Reg) :
    (observeOne script m inv).sgauges = m.sgauges ∧ m.clock ≤ (observeOne script m inv).clock := by
  unfold observeOne
  cases hk : m.kinds[inv.instr]? with
  | none => simp
  | some k =>
    cases k
    · simp
    · simp
    · exact ⟨rfl, grecordAll_clock _ _ _⟩
    · simp

theorem foldl_observe_sg (script : Script) : ∀ (l : Registry) (m : AMeter),
    (l.foldl (observeOne script) m).sgauges = m.sgauges ∧ m.clock ≤ (l.foldl (observeOne script) m).clock
  | [], _ => ⟨rfl, Nat.le_refl _⟩
  | inv :: t, m => by
    obtain ⟨a1, a2⟩ := observeOne_sg script m inv
    obtain ⟨b1, b2⟩ := foldl_observe_sg script t (observeOne script m inv)
    simp only [List.foldl_cons]
    exact ⟨b1.trans a1, Nat.le_trans a2 b2⟩

/-- the meter state is consistent with history `h`, from the point of view of synchronous gauge `i` -/
structure SGInv (c : Cfg) (i : Nat) (h : List AOp) (m : AMeter) : Prop where
  kinds : m.kinds = kindsOf h
  collects : m.collects = collectsInA h
  storage : m.sgauges i = sgrunRev c (lopsOf c i h)
  bound : maxTs (lopsOf c i h) ≤ m.clock
  inc : Increasing (lopsOf c i h)

theorem sginv_run (c : Cfg) (i : Nat) : ∀ h : List AOp, SGInv c i h (amrunRev c h)
  | [] => ⟨rfl, rfl, rfl, Nat.le_refl _, trivial⟩
  | op :: o => by
    have hi := sginv_run c i o
    cases op with
    | create k => exact ⟨by simp [amrunRev, amstep, kindsOf, hi.kinds], hi.collects, hi.storage, hi.bound, hi.inc⟩
    | addcb j cb => exact ⟨hi.kinds, hi.collects, hi.storage, hi.bound, hi.inc⟩
    | rmcb j cb => exact ⟨hi.kinds, hi.collects, hi.storage, hi.bound, hi.inc⟩
    | destroy j => exact ⟨hi.kinds, hi.collects, hi.storage, hi.bound, hi.inc⟩
    | grec j a v =>
      simp only [amrunRev, amstep]
      by_cases hc : j = i ∧ (kindsOf o)[i]? = some .syncGauge
      · obtain ⟨rfl, hk⟩ := hc
        have hk' : (amrunRev c o).kinds[j]? = some .syncGauge := by rw [hi.kinds]; exact hk
        have hl : lopsOf c j (.grec j a v :: o) = .record a ⟨v, (amrunRev c o).clock + 1⟩ :: lopsOf c j o := by
          simp [lopsOf, hk]
        simp only [hk']
        refine ⟨hi.kinds, hi.collects, ?_, ?_, ?_⟩
        · rw [hl]; simp only [setAt_same, sgrunRev]; rw [hi.storage]
        · rw [hl]; simp only [maxTs]
          exact Nat.max_le.mpr ⟨Nat.le_refl _, Nat.le_trans hi.bound (Nat.le_succ _)⟩
        · rw [hl]; exact ⟨Nat.lt_succ_of_le hi.bound, hi.inc⟩
      · have hl : lopsOf c i (.grec j a v :: o) = lopsOf c i o := by simp [lopsOf, hc]
        cases hk : (amrunRev c o).kinds[j]? with
        | none => exact ⟨hi.kinds, hi.collects, by rw [hl]; exact hi.storage, by rw [hl]; exact hi.bound, by rw [hl]; exact hi.inc⟩
        | some k =>
          cases k
          · exact ⟨hi.kinds, hi.collects, by rw [hl]; exact hi.storage, by rw [hl]; exact hi.bound, by rw [hl]; exact hi.inc⟩
          · exact ⟨hi.kinds, hi.collects, by rw [hl]; exact hi.storage, by rw [hl]; exact hi.bound, by rw [hl]; exact hi.inc⟩
          · exact ⟨hi.kinds, hi.collects, by rw [hl]; exact hi.storage, by rw [hl]; exact hi.bound, by rw [hl]; exact hi.inc⟩
          · have hne : i ≠ j := by
              intro e; subst e
              apply hc; refine ⟨rfl, ?_⟩; rw [← hi.kinds]; exact hk
            refine ⟨hi.kinds, hi.collects, ?_, by rw [hl]; exact Nat.le_trans hi.bound (Nat.le_succ _), by rw [hl]; exact hi.inc⟩
            rw [hl]; simp only [setAt_other _ _ hne]; exact hi.storage
    | collect r script =>
      obtain ⟨o1, o2, _⟩ := foldl_observe_sums script i (invocations (amrunRev c o).registry) (amrunRev c o)
      obtain ⟨g1, g2⟩ := foldl_observe_sg script (invocations (amrunRev c o).registry) (amrunRev c o)
      have hl : lopsOf c i (.collect r script :: o) = .collect r (collectsInA o + 1) :: lopsOf c i o := rfl
      simp only [amrunRev, amstep, amcollect, observe_eq_foldl]
      refine ⟨o1.trans hi.kinds, by simp [collectsInA, hi.collects], ?_, ?_, by rw [hl]; exact hi.inc⟩
      · rw [hl]; simp only [sgrunRev]; rw [g1, hi.storage, hi.collects]
      · rw [hl]; simp only [maxTs]; exact Nat.le_trans hi.bound g2

/-- the points of what a reader received for a gauge -/
def lvPoints : Option Out → LMap
  | some (.lv md) => md.points
  | _ => []

/-- **gauge_reports_latest for synchronous gauges, at the meter**: for every meter history — gauge `Record` calls
    interleaved with the creation of other instruments, callback registrations and collections by any readers, delta
    or cumulative — a collection reports for synchronous gauge `i`, per attribute set, the value most recently
    recorded (and a point exactly for the sets ever recorded). -/
theorem meter_sync_gauge_reports_latest (c : Cfg) (i : Nat) (h : List AOp) (r : Nat) (script : Script) (hr : r < c.n)
    (hk : (kindsOf h)[i]? = some .syncGauge) (x : Nat) :
    ((lvPoints ((amcollect c (amrunRev c h) r script).2.2 i)).lookup x).map (·.v) = latestGaugeValue i h x := by
  have hi := sginv_run c i h
  obtain ⟨o1, _, _⟩ := foldl_observe_sums script i (invocations (amrunRev c h).registry) (amrunRev c h)
  obtain ⟨g1, _⟩ := foldl_observe_sg script (invocations (amrunRev c h).registry) (amrunRev c h)
  rw [← latestRec_lopsOf c i x h, ← gauge_reports_latest_sync c (lopsOf c i h) hi.inc r (collectsInA h + 1) hr x]
  simp only [amcollect, observe_eq_foldl]
  rw [o1, hi.kinds, hk, g1, hi.storage, hi.collects]
  cases (sgcollect c (sgrunRev c (lopsOf c i h)) r (collectsInA h + 1)).2 <;> rfl

/-- example (not vacuous): two records on one attribute set, a delta reader still receives the latest value -/
example :
    let c : Cfg := ⟨[.delta]⟩
    let h : List AOp := [.grec 0 2 7, .grec 0 2 5, .create .syncGauge]
    ((lvPoints ((amcollect c (amrunRev c h) 0 (fun _ => [])).2.2 0)).lookup 2).map (·.v) = some 7 := by decide

/-! ## Observable gauges at the meter -/

/-- the samples `grecordAll` makes of one invocation's measurements: one tick of the sample clock each -/
def stampAll : Nat → DMap → List (Nat × Sample) × Nat
  | clock, [] => ([], clock)
  | clock, (a, v) :: t => ((a, ⟨v, clock + 1⟩) :: (stampAll (clock + 1) t).1, (stampAll (clock + 1) t).2)

theorem grecordAll_eq : ∀ (ms : DMap) (s : GaugeStorage) (clock : Nat),
    grecordAll s clock ms = ((stampAll clock ms).1.foldl (fun s kv => grecordOne s kv.1 kv.2) s, (stampAll clock ms).2)
  | [], _, _ => rfl
  | (a, v) :: t, s, clock => by
    simp only [grecordAll, stampAll, List.foldl_cons]
    exact grecordAll_eq t _ _

/-- the stamped observations instrument `i` (an observable gauge) receives from one `Observe`, and the sample clock
    afterwards (every gauge invocation advances the clock, also those on other instruments) -/
def gobs (script : Script) (i : Nat) (kinds : List OKind) : List Reg → Nat → List (Nat × Sample) × Nat
  | [], clock => ([], clock)
  | inv :: t, clock =>
    match kinds[inv.instr]? with
    | some .gauge =>
      let st := stampAll clock (measurements (script inv.cb))
      let r := gobs script i kinds t st.2
      (if inv.instr = i then st.1 ++ r.1 else r.1, r.2)
    | _ => gobs script i kinds t clock

theorem foldl_observe_gauge (script : Script) (i : Nat) : ∀ (l : Registry) (m : AMeter),
    (l.foldl (observeOne script) m).gauges i =
      (gobs script i m.kinds l m.clock).1.foldl (fun s kv => grecordOne s kv.1 kv.2) (m.gauges i) ∧
    (l.foldl (observeOne script) m).clock = (gobs script i m.kinds l m.clock).2
  | [], m => ⟨rfl, rfl⟩
  | inv :: t, m => by
    obtain ⟨f1, _⟩ := observeOne_frame script m inv
    obtain ⟨i1, i2⟩ := foldl_observe_gauge script i t (observeOne script m inv)
    simp only [List.foldl_cons]
    rw [i1, i2, f1]
    cases hk : m.kinds[inv.instr]? with
    | none =>
      have : observeOne script m inv = m := by simp [observeOne, hk]
      simp [gobs, hk, this]
    | some k =>
      cases k with
      | counter =>
        have h1 : (observeOne script m inv).gauges = m.gauges ∧ (observeOne script m inv).clock = m.clock := by
          simp [observeOne, hk]
        simp [gobs, hk, h1.1, h1.2]
      | updown =>
        have h1 : (observeOne script m inv).gauges = m.gauges ∧ (observeOne script m inv).clock = m.clock := by
          simp [observeOne, hk]
        simp [gobs, hk, h1.1, h1.2]
      | syncGauge =>
        have : observeOne script m inv = m := by simp [observeOne, hk]
        simp [gobs, hk, this]
      | gauge =>
        have h1 : (observeOne script m inv).gauges = setAt m.gauges inv.instr
              ((stampAll m.clock (measurements (script inv.cb))).1.foldl (fun s kv => grecordOne s kv.1 kv.2) (m.gauges inv.instr)) ∧
            (observeOne script m inv).clock = (stampAll m.clock (measurements (script inv.cb))).2 := by
          simp [observeOne, hk, grecordAll_eq]
        simp only [gobs, hk, h1.1, h1.2]
        by_cases hi : inv.instr = i
        · subst hi; simp [List.foldl_append]
        · have hne : i ≠ inv.instr := fun e => hi e.symm
          simp [hi, setAt_other _ _ hne]

/-- the cycles observable gauge `i`'s storage sees in a meter history (samples stamped with the meter clock: a proof
    device, the statements below speak about values) -/
def gcyclesOf (c : Cfg) (i : Nat) : List AOp → List GCycle
  | [] => []
  | .collect r script :: o =>
    ⟨(gobs script i (kindsOf o) (rrunRev (regOps o)) (amrunRev c o).clock).1, r, collectsInA o + 1⟩ :: gcyclesOf c i o
  | .create _ :: o => gcyclesOf c i o
  | .addcb _ _ :: o => gcyclesOf c i o
  | .rmcb _ _ :: o => gcyclesOf c i o
  | .destroy _ :: o => gcyclesOf c i o
  | .grec _ _ _ :: o => gcyclesOf c i o

theorem increasing_stampAll : ∀ (ms : DMap) (clock : Nat) (rest : List LOp), maxTs rest ≤ clock → Increasing rest →
    Increasing (((stampAll clock ms).1.map fun kv => LOp.record kv.1 kv.2).reverse ++ rest) ∧
    maxTs (((stampAll clock ms).1.map fun kv => LOp.record kv.1 kv.2).reverse ++ rest) ≤ (stampAll clock ms).2 ∧
    clock ≤ (stampAll clock ms).2
  | [], clock, rest, hb, hi => by simpa [stampAll] using ⟨hi, hb⟩
  | (a, v) :: t, clock, rest, hb, hi => by
    have hb' : maxTs (LOp.record a ⟨v, clock + 1⟩ :: rest) ≤ clock + 1 := by
      simp only [maxTs]; exact Nat.max_le.mpr ⟨Nat.le_refl _, Nat.le_trans hb (Nat.le_succ _)⟩
    have hi' : Increasing (LOp.record a ⟨v, clock + 1⟩ :: rest) := ⟨Nat.lt_succ_of_le hb, hi⟩
    obtain ⟨j1, j2, j3⟩ := increasing_stampAll t (clock + 1) _ hb' hi'
    simp only [stampAll, List.map_cons, List.reverse_cons, List.append_assoc, List.singleton_append]
    exact ⟨j1, j2, Nat.le_trans (Nat.le_succ _) j3⟩

theorem increasing_gobs (script : Script) (i : Nat) (kinds : List OKind) : ∀ (l : Registry) (clock : Nat) (rest : List LOp),
    maxTs rest ≤ clock → Increasing rest →
    Increasing (((gobs script i kinds l clock).1.map fun kv => LOp.record kv.1 kv.2).reverse ++ rest) ∧
    maxTs (((gobs script i kinds l clock).1.map fun kv => LOp.record kv.1 kv.2).reverse ++ rest) ≤ (gobs script i kinds l clock).2 ∧
    clock ≤ (gobs script i kinds l clock).2
  | [], clock, rest, hb, hi => by simpa [gobs] using ⟨hi, hb⟩
  | inv :: t, clock, rest, hb, hi => by
    cases hk : kinds[inv.instr]? with
    | none => simpa [gobs, hk] using increasing_gobs script i kinds t clock rest hb hi
    | some k =>
      cases k with
      | counter => simpa [gobs, hk] using increasing_gobs script i kinds t clock rest hb hi
      | updown => simpa [gobs, hk] using increasing_gobs script i kinds t clock rest hb hi
      | syncGauge => simpa [gobs, hk] using increasing_gobs script i kinds t clock rest hb hi
      | gauge =>
        obtain ⟨s1, s2, s3⟩ := increasing_stampAll (measurements (script inv.cb)) clock rest hb hi
        simp only [gobs, hk]
        by_cases hi' : inv.instr = i
        · obtain ⟨g1, g2, g3⟩ := increasing_gobs script i kinds t _ _ s2 s1
          simp only [hi', if_true, List.map_append, List.reverse_append, List.append_assoc]
          exact ⟨g1, g2, Nat.le_trans s3 g3⟩
        · obtain ⟨g1, g2, g3⟩ := increasing_gobs script i kinds t (stampAll clock (measurements (script inv.cb))).2 rest
            (Nat.le_trans hb s3) hi
          simp only [hi', if_false]
          exact ⟨g1, g2, Nat.le_trans s3 g3⟩

/-- the meter state is consistent with history `h`, from the point of view of observable gauge `i` -/
structure GGInv (c : Cfg) (i : Nat) (h : List AOp) (m : AMeter) : Prop where
  kinds : m.kinds = kindsOf h
  collects : m.collects = collectsInA h
  storage : m.gauges i = grunRev c (gcyclesOf c i h)
  bound : maxTs (translateG (gcyclesOf c i h)) ≤ m.clock
  inc : Increasing (translateG (gcyclesOf c i h))

theorem gginv_run (c : Cfg) (i : Nat) : ∀ h : List AOp, GGInv c i h (amrunRev c h)
  | [] => ⟨rfl, rfl, rfl, Nat.le_refl _, trivial⟩
  | op :: o => by
    have hi := gginv_run c i o
    cases op with
    | create k => exact ⟨by simp [amrunRev, amstep, kindsOf, hi.kinds], hi.collects, hi.storage, hi.bound, hi.inc⟩
    | addcb j cb => exact ⟨hi.kinds, hi.collects, hi.storage, hi.bound, hi.inc⟩
    | rmcb j cb => exact ⟨hi.kinds, hi.collects, hi.storage, hi.bound, hi.inc⟩
    | destroy j => exact ⟨hi.kinds, hi.collects, hi.storage, hi.bound, hi.inc⟩
    | grec j a v =>
      have hl : gcyclesOf c i (.grec j a v :: o) = gcyclesOf c i o := rfl
      simp only [amrunRev, amstep]
      cases hk : (amrunRev c o).kinds[j]? with
      | none => exact ⟨hi.kinds, hi.collects, hi.storage, hi.bound, hi.inc⟩
      | some k =>
        cases k
        · exact ⟨hi.kinds, hi.collects, hi.storage, hi.bound, hi.inc⟩
        · exact ⟨hi.kinds, hi.collects, hi.storage, hi.bound, hi.inc⟩
        · exact ⟨hi.kinds, hi.collects, hi.storage, hi.bound, hi.inc⟩
        · exact ⟨hi.kinds, hi.collects, hi.storage, by rw [hl]; exact Nat.le_trans hi.bound (Nat.le_succ _), hi.inc⟩
    | collect r script =>
      obtain ⟨o1, o2, _⟩ := foldl_observe_sums script i (invocations (amrunRev c o).registry) (amrunRev c o)
      obtain ⟨g1, g2⟩ := foldl_observe_gauge script i (invocations (amrunRev c o).registry) (amrunRev c o)
      obtain ⟨k1, k2, _⟩ := increasing_gobs script i (kindsOf o) (rrunRev (regOps o)) (amrunRev c o).clock
        (translateG (gcyclesOf c i o)) hi.bound hi.inc
      have hl : gcyclesOf c i (.collect r script :: o) =
          ⟨(gobs script i (kindsOf o) (rrunRev (regOps o)) (amrunRev c o).clock).1, r, collectsInA o + 1⟩ :: gcyclesOf c i o := rfl
      have hreg : invocations (amrunRev c o).registry = rrunRev (regOps o) := by simp [invocations, meter_registry]
      rw [hreg, hi.kinds] at g1 g2
      simp only [amrunRev, amstep, amcollect, observe_eq_foldl]
      refine ⟨o1.trans hi.kinds, by simp [collectsInA, hi.collects], ?_, ?_, ?_⟩
      · rw [hl]; simp only [grunRev, gcycle]; rw [hreg, g1, hi.storage, hi.collects]
      · rw [hl, hreg, g2]; simp only [translateG, maxTs, gRecs]; exact k2
      · rw [hl]; simp only [translateG, Increasing, gRecs]; exact k1

/-- every collection of the history is made by a configured reader -/
def ValidA (c : Cfg) : List AOp → Prop
  | [] => True
  | .collect r _ :: o => r < c.n ∧ ValidA c o
  | .create _ :: o => ValidA c o
  | .addcb _ _ :: o => ValidA c o
  | .rmcb _ _ :: o => ValidA c o
  | .destroy _ :: o => ValidA c o
  | .grec _ _ _ :: o => ValidA c o

theorem valid_gcycles (c : Cfg) (i : Nat) : ∀ h : List AOp, ValidA c h → ∀ y ∈ gcyclesOf c i h, y.r < c.n
  | [], _, y, hy => by simp [gcyclesOf] at hy
  | .collect r s :: o, hv, y, hy => by
    simp only [gcyclesOf, List.mem_cons] at hy
    rcases hy with rfl | hy
    · exact hv.1
    · exact valid_gcycles c i o hv.2 y hy
  | .create _ :: o, hv, y, hy => valid_gcycles c i o hv y hy
  | .addcb _ _ :: o, hv, y, hy => valid_gcycles c i o hv y hy
  | .rmcb _ _ :: o, hv, y, hy => valid_gcycles c i o hv y hy
  | .destroy _ :: o, hv, y, hy => valid_gcycles c i o hv y hy
  | .grec _ _ _ :: o, hv, y, hy => valid_gcycles c i o hv y hy

/-- **gauge_reports_latest for observable gauges, at the meter**: for every meter history, a collection reports for
    observable gauge `i`, per attribute set, to a cumulative reader the most recent observation made by the callbacks
    registered on `i` (in this or an earlier collection by any reader), to a delta reader the most recent observation
    of its own interval.  The increasing sample times are derived from the meter's sample clock. -/
theorem meter_observable_gauge_reports_latest (c : Cfg) (i : Nat) (h : List AOp) (r : Nat) (script : Script)
    (hv : ValidA c (.collect r script :: h)) (hk : (kindsOf h)[i]? = some .gauge) (x : Nat) :
    (lvPoints ((amcollect c (amrunRev c h) r script).2.2 i)).lookup x =
      match c.temp r with
      | .cumulative => latestRec (translateG (gcyclesOf c i (.collect r script :: h))).tail x
      | .delta => latestSince r (translateG (gcyclesOf c i (.collect r script :: h))).tail x := by
  have hi := gginv_run c i h
  have hi' := gginv_run c i (.collect r script :: h)
  obtain ⟨o1, _, _⟩ := foldl_observe_sums script i (invocations (amrunRev c h).registry) (amrunRev c h)
  obtain ⟨g1, _⟩ := foldl_observe_gauge script i (invocations (amrunRev c h).registry) (amrunRev c h)
  have hreg : invocations (amrunRev c h).registry = rrunRev (regOps h) := by simp [invocations, meter_registry]
  rw [hreg, hi.kinds] at g1
  have hl : gcyclesOf c i (.collect r script :: h) =
      ⟨(gobs script i (kindsOf h) (rrunRev (regOps h)) (amrunRev c h).clock).1, r, collectsInA h + 1⟩ :: gcyclesOf c i h := rfl
  have hgl := gauge_reports_latest_observable_cycle c (gcyclesOf c i h)
    ⟨(gobs script i (kindsOf h) (rrunRev (regOps h)) (amrunRev c h).clock).1, r, collectsInA h + 1⟩
    (by rw [← hl]; exact valid_gcycles c i _ hv) (by rw [← hl]; exact hi'.inc) x
  rw [hl]
  simp only [translateG, List.tail_cons]
  refine Eq.trans ?_ hgl
  simp only [amcollect, observe_eq_foldl, gcycle]
  rw [o1, hi.kinds, hk, hreg, g1, hi.storage, hi.collects]
  cases (gcollect c (List.foldl (fun s kv => grecordOne s kv.1 kv.2) (grunRev c (gcyclesOf c i h))
    (gobs script i (kindsOf h) (rrunRev (regOps h)) (amrunRev c h).clock).1) r (collectsInA h + 1)).2 <;> rfl

/-- example (not vacuous): callback 3 observes 4 then 9 for attribute set 1; a cumulative reader receives 9 -/
example :
    let c : Cfg := ⟨[.cumulative]⟩
    let s1 : Script := fun cb => if cb = 3 then [(1, 4)] else []
    let s2 : Script := fun cb => if cb = 3 then [(1, 9)] else []
    let h : List AOp := [.collect 0 s1, .addcb 0 3, .create .gauge]
    ((lvPoints ((amcollect c (amrunRev c h) 0 s2).2.2 0)).lookup 1).map (·.v) = some 9 := by decide

end Otel.C17
