import OtelVerif.Props.C17
/-! # C17 at the meter: `Meter::Collect` feeds every observable counter's storage exactly the measurements of the
    callbacks registered on its instrument, once each

This lifts the per-storage theorems of `Props/C17.lean` (stated over the cycles a storage sees) to histories of the
meter model (`AMeter`, `amstep`): `cyclesOf` is the projection of a meter history on instrument `i`. -/
namespace Otel.C17
open Otel.Temporal Otel.C06

/-- the kinds of the instruments created in a history (most recent operation first), in creation order -/
def kindsOf : List AOp → List OKind
  | [] => []
  | .create k :: o => kindsOf o ++ [k]
  | .addcb _ _ :: o => kindsOf o
  | .rmcb _ _ :: o => kindsOf o
  | .destroy _ :: o => kindsOf o
  | .grec _ _ _ :: o => kindsOf o
  | .collect _ _ :: o => kindsOf o

def collectsInA : List AOp → Nat
  | [] => 0
  | .collect _ _ :: o => collectsInA o + 1
  | .create _ :: o => collectsInA o
  | .addcb _ _ :: o => collectsInA o
  | .rmcb _ _ :: o => collectsInA o
  | .destroy _ :: o => collectsInA o
  | .grec _ _ _ :: o => collectsInA o

/-- what one invocation records into the sum storage of instrument `i` of kind `k` -/
def recOf (k : Option OKind) (script : Script) (inv : Reg) : Option DMap :=
  match k with
  | some .counter => some (ignoreNegative (measurements (script inv.cb)))
  | some .updown => some (measurements (script inv.cb))
  | _ => none

/-- **Specification**: the measurement maps recorded into instrument `i`'s storage by one `Observe`: one per record
    registered on `i`, in registration order -/
def recsFor (k : Option OKind) (i : Nat) (g : Registry) (script : Script) : List DMap :=
  (g.filter fun inv => inv.instr == i).filterMap (recOf k script)

/-- **the cycles instrument `i`'s sum storage sees** in a meter history -/
def cyclesOf (i : Nat) : List AOp → List Cycle
  | [] => []
  | .collect r script :: o =>
    ⟨recsFor ((kindsOf o)[i]?) i (rrunRev (regOps o)) script, r, collectsInA o + 1⟩ :: cyclesOf i o
  | .create _ :: o => cyclesOf i o
  | .addcb _ _ :: o => cyclesOf i o
  | .rmcb _ _ :: o => cyclesOf i o
  | .destroy _ :: o => cyclesOf i o
  | .grec _ _ _ :: o => cyclesOf i o

/-- the body of the loop in `observe` -/
def observeOne (script : Script) (m : AMeter) (inv : Reg) : AMeter :=
  let ms := measurements (script inv.cb)
  match m.kinds[inv.instr]? with
  | some .gauge =>
    let res := grecordAll (m.gauges inv.instr) m.clock ms
    { m with gauges := setAt m.gauges inv.instr res.1, clock := res.2 }
  | some .syncGauge => m
  | some .counter => { m with sums := setAt m.sums inv.instr (recordAll (m.sums inv.instr) (ignoreNegative ms)) }
  | some .updown => { m with sums := setAt m.sums inv.instr (recordAll (m.sums inv.instr) ms) }
  | none => m

theorem observe_eq_foldl (m : AMeter) (script : Script) :
    observe m script = (invocations m.registry).foldl (observeOne script) m := rfl

theorem observeOne_frame (script : Script) (m : AMeter) (inv : Reg) :
    (observeOne script m inv).kinds = m.kinds ∧ (observeOne script m inv).collects = m.collects := by
  unfold observeOne
  cases hk : m.kinds[inv.instr]? with
  | none => simp
  | some k => cases k <;> simp

theorem observeOne_sums (script : Script) (m : AMeter) (inv : Reg) (i : Nat) :
    (observeOne script m inv).sums i =
      if inv.instr = i then
        match recOf (m.kinds[i]?) script inv with
        | some ms => recordAll (m.sums i) ms
        | none => m.sums i
      else m.sums i := by
  unfold observeOne
  by_cases hi : inv.instr = i
  · subst hi
    simp only [if_true]
    cases hk : m.kinds[inv.instr]? with
    | none => simp [recOf]
    | some k => cases k <;> simp [recOf, setAt]
  · simp only [hi, if_false]
    have hne : i ≠ inv.instr := fun e => hi e.symm
    cases hk : m.kinds[inv.instr]? with
    | none => simp
    | some k => cases k <;> simp [setAt_other _ _ hne]

/-- the loop of `observe`, seen from instrument `i`'s sum storage -/
theorem foldl_observe_sums (script : Script) (i : Nat) : ∀ (l : Registry) (m : AMeter),
    (l.foldl (observeOne script) m).kinds = m.kinds ∧ (l.foldl (observeOne script) m).collects = m.collects ∧
    (l.foldl (observeOne script) m).sums i = (recsFor (m.kinds[i]?) i l script).foldl recordAll (m.sums i)
  | [], m => ⟨rfl, rfl, rfl⟩
  | inv :: t, m => by
    obtain ⟨f1, f2⟩ := observeOne_frame script m inv
    obtain ⟨i1, i2, i3⟩ := foldl_observe_sums script i t (observeOne script m inv)
    simp only [List.foldl_cons]
    refine ⟨i1.trans f1, i2.trans f2, ?_⟩
    rw [i3, f1, observeOne_sums]
    by_cases hi : inv.instr = i
    · have hb : (inv.instr == i) = true := by simp [hi]
      simp only [hi, if_true, recsFor, List.filter_cons, hb, List.filterMap_cons]
      have hb' : (i == i) = true := by simp
      cases hr : recOf (m.kinds[i]?) script inv with
      | none => simp [hi ▸ hb', hr]
      | some ms => simp [hi ▸ hb', hr]
    · have hb : (inv.instr == i) = false := by simp [hi]
      simp only [hi, if_false, recsFor, List.filter_cons, hb]
      rfl

/-- the meter state is consistent with history `h`, from the point of view of instrument `i`'s sum storage -/
structure AMInv (c : Cfg) (i : Nat) (h : List AOp) (m : AMeter) : Prop where
  kinds : m.kinds = kindsOf h
  collects : m.collects = collectsInA h
  sums : m.sums i = (arunRev c (cyclesOf i h)).1

theorem aminv_step (c : Cfg) (i : Nat) (h : List AOp) (m : AMeter) (op : AOp) (hreg : m.registry = rrunRev (regOps h))
    (hi : AMInv c i h m) : AMInv c i (op :: h) (amstep c m op) := by
  cases op with
  | create k => exact ⟨by simp [amstep, kindsOf, hi.kinds], hi.collects, hi.sums⟩
  | addcb j cb => exact ⟨hi.kinds, hi.collects, hi.sums⟩
  | rmcb j cb => exact ⟨hi.kinds, hi.collects, hi.sums⟩
  | destroy j => exact ⟨hi.kinds, hi.collects, hi.sums⟩
  | grec j a v =>
    simp only [amstep]
    cases hk : m.kinds[j]? with
    | none => exact ⟨hi.kinds, hi.collects, hi.sums⟩
    | some k => cases k <;> exact ⟨hi.kinds, hi.collects, hi.sums⟩
  | collect r script =>
    obtain ⟨o1, o2, o3⟩ := foldl_observe_sums script i (invocations m.registry) m
    simp only [amstep, amcollect, observe_eq_foldl]
    refine ⟨o1.trans hi.kinds, by simp [collectsInA, o2, hi.collects], ?_⟩
    simp only [cyclesOf, arunRev, acycle]
    rw [o3, hi.sums, hi.kinds, hi.collects]
    simp only [invocations, hreg]

/-- **meter_sum_storage**: after every meter history, the storage of observable instrument `i` is in the state its
    own cycles lead to -/
theorem meter_sum_storage (c : Cfg) (i : Nat) : ∀ h : List AOp, AMInv c i h (amrunRev c h)
  | [] => ⟨rfl, rfl, rfl⟩
  | op :: h => aminv_step c i h _ op (meter_registry c h) (meter_sum_storage c i h)

/-- **meter_sum_output**: what a reader receives for observable counter / up-down counter `i` from a collection after
    meter history `h` is the output of that storage's next cycle -/
theorem meter_sum_output (c : Cfg) (i : Nat) (h : List AOp) (r : Nat) (script : Script) (k : OKind)
    (hk : (kindsOf h)[i]? = some k) (hsum : k = .counter ∨ k = .updown) :
    (amcollect c (amrunRev c h) r script).2.2 i =
      (cycleOut c (cyclesOf i h) ⟨recsFor (some k) i (rrunRev (regOps h)) script, r, collectsInA h + 1⟩).map Out.sum := by
  have hi := meter_sum_storage c i h
  obtain ⟨o1, o2, o3⟩ := foldl_observe_sums script i (invocations (amrunRev c h).registry) (amrunRev c h)
  simp only [amcollect, observe_eq_foldl, cycleOut, acycle]
  rw [o1, hi.kinds, hk, o3, hi.sums, hi.kinds, hk, hi.collects]
  simp only [invocations, meter_registry]
  rcases hsum with rfl | rfl <;> rfl

/-- **each callback's measurements reach its instrument once per collection**: a callback registered once on
    instrument `i` contributes exactly one measurement map to `i`'s cycle -/
theorem recsFor_length (k : OKind) (hsum : k = .counter ∨ k = .updown) (i : Nat) (g : Registry) (script : Script) :
    (recsFor (some k) i g script).length = (g.filter fun inv => inv.instr == i).length := by
  unfold recsFor
  generalize (g.filter fun inv => inv.instr == i) = l
  induction l with
  | nil => rfl
  | cons inv t ih => rcases hsum with rfl | rfl <;> simp [recOf, ih]

/-- the points of what a reader received for a sum instrument -/
def sumPoints : Option Out → DMap
  | some (.sum md) => md.points
  | _ => []

theorem sumPoints_map (o : Option MetricData) : sumPoints (o.map Out.sum) = pointsOf o := by
  cases o <;> rfl

/-- **observable_cumulative_is_reported_total, at the meter**: for every meter history (create / AddCallback /
    RemoveCallback / destroy / Collect by any readers with any scripts), under the D21 hypothesis for the cycles of
    instrument `i`, a cumulative reader's point for `a` is the total most recently reported for `a` by the callbacks
    registered on `i`. -/
theorem meter_observable_cumulative (c : Cfg) (i : Nat) (h : List AOp) (r : Nat) (script : Script) (k : OKind)
    (hk : (kindsOf h)[i]? = some k) (hsum : k = .counter ∨ k = .updown)
    (hcl : Clean c (⟨recsFor (some k) i (rrunRev (regOps h)) script, r, collectsInA h + 1⟩ :: cyclesOf i h))
    (hc : c.temp r = .cumulative) (a : Nat) :
    valAt (sumPoints ((amcollect c (amrunRev c h) r script).2.2 i)) a =
      lastObs (⟨recsFor (some k) i (rrunRev (regOps h)) script, r, collectsInA h + 1⟩ :: cyclesOf i h) a := by
  rw [meter_sum_output c i h r script k hk hsum, sumPoints_map]
  exact observable_cumulative_is_reported_total c _ _ hcl hc a

/-- **observable_delta_is_diff_from_own_last, at the meter** -/
theorem meter_observable_delta (c : Cfg) (i : Nat) (h : List AOp) (r : Nat) (script : Script) (k : OKind)
    (hk : (kindsOf h)[i]? = some k) (hsum : k = .counter ∨ k = .updown)
    (hcl : Clean c (⟨recsFor (some k) i (rrunRev (regOps h)) script, r, collectsInA h + 1⟩ :: cyclesOf i h))
    (hd : c.temp r = .delta) (a : Nat) :
    valAt (sumPoints ((amcollect c (amrunRev c h) r script).2.2 i)) a =
      lastObs (⟨recsFor (some k) i (rrunRev (regOps h)) script, r, collectsInA h + 1⟩ :: cyclesOf i h) a
        - givenTo r (cyclesOf i h) a := by
  rw [meter_sum_output c i h r script k hk hsum, sumPoints_map]
  exact observable_delta_is_diff_from_own_last c _ _ hcl hd a

/-- example: the meter-level hypotheses are satisfiable and the statement is not vacuous: one observable counter, one
    callback (id 3) reporting 10 then 25 for attribute set 1, a delta reader: it receives 10, then 15. -/
example :
    let c : Cfg := ⟨[.delta]⟩
    let s1 : Script := fun cb => if cb = 3 then [(1, 10)] else []
    let s2 : Script := fun cb => if cb = 3 then [(1, 25)] else []
    let h1 : List AOp := [.addcb 0 3, .create .counter]
    (valAt (sumPoints ((amcollect c (amrunRev c h1) 0 s1).2.2 0)) 1,
     valAt (sumPoints ((amcollect c (amrunRev c (.collect 0 s1 :: h1)) 0 s2).2.2 0)) 1) = (10, 15) := by decide

end Otel.C17
