import OtelVerif.Lemmas.ReaderMain
/-! # C02 / C03 — the periodic exporting metric reader

Theorems about `Model/ReaderAbs.lean`, for every schedule of the worker, its per-cycle collect thread, any number of
recorders, `ForceFlush` callers and `Shutdown` callers (serialized by `shutdown_m_` where they touch the worker thread, D82);
the export timeout may fire at any moment.  `recorded` counts measurements, `covered` is the largest `Produce` snapshot whose `Export` has returned,
`bh` = `recorded` when a `ForceFlush` call began. -/
namespace Otel.C02Reader
open Otel Otel.Reader

variable {as : List Act} {s : St} (h : run init as = some s)
include h

/-- **one Export at a time** (C03): at most one `exporter.Export` call is in flight, exactly while the collect thread
    is inside it; and a collect thread exists only while the worker waits for / joins it (one per cycle, joined before
    the next cycle starts) -/
theorem export_not_reentrant_reader :
    s.inExport ≤ 1 ∧ (s.inExport = 1 ↔ ∃ p, s.cpc = .exportE p) ∧
    (s.cpc ≠ .none → ∃ n, s.wpc = .waitF n ∨ s.wpc = .joinC n) := by
  have hI := reachable_inv as s h
  have hw := hI.w
  have key : (∃ n, (s.wpc = .waitF n ∨ s.wpc = .joinC n) ∧ CInv s) ∨ (s.cpc = .none ∧ s.inExport = 0) := by
    unfold WInv at hw
    cases hpc : s.wpc <;> rw [hpc] at hw <;> simp only at hw
    all_goals first
      | exact Or.inr ⟨hw.1, hw.2.1⟩
      | exact Or.inr ⟨hw.1, hw.2⟩
      | exact Or.inl ⟨_, Or.inl rfl, hw.2.2⟩
      | exact Or.inl ⟨_, Or.inr rfl, hw.2.2⟩
  rcases key with ⟨n, hn, hc⟩ | ⟨hc, hi⟩
  · unfold CInv at hc
    cases hpc : s.cpc <;> rw [hpc] at hc <;> simp only at hc
    all_goals first
      | exact absurd hc id
      | (have hi : s.inExport = 1 := hc.1
         exact ⟨by omega, ⟨fun _ => ⟨_, rfl⟩, fun _ => hi⟩, fun _ => ⟨n, hn⟩⟩)
      | (have hi : s.inExport = 0 := by first | exact hc | exact hc.1
         exact ⟨by omega, ⟨fun h1 => by omega, fun ⟨_, h2⟩ => by cases h2⟩, fun _ => ⟨n, hn⟩⟩)
  · exact ⟨by omega, ⟨fun h1 => by omega, fun ⟨p, h2⟩ => by rw [hc] at h2; cases h2⟩, fun hne => absurd hc hne⟩

/-- **no Export after Shutdown has returned** (C02): the ghost count of `Export` calls begun after a `Shutdown` call had
    returned stays zero; by then the worker has exited and been joined -/
theorem reader_no_export_after_shutdown : s.lateExports = 0 ∧ (s.sdReturned = true → s.wpc = .done ∧ s.cpc = .none) := by
  have hI := reachable_inv as s h
  refine ⟨hI.late, fun hr => ?_⟩
  have hd := hI.joinedD (hI.retd hr)
  have hw := hI.w
  unfold WInv at hw; rw [hd] at hw
  exact ⟨hd, hw.1⟩

/-- **ForceFlush complete** (C02, partial): if a reader `ForceFlush` returned true then — unless some collection was
    cancelled by `export_timeout` and skipped its `Export` (D17) — every measurement recorded before the call began is
    covered by an `Export` that has returned; returning true also needs the exporter's own `ForceFlush` to have been
    invoked and to have succeeded (the only path to `ret _ true` goes through it) -/
theorem reader_flush_complete_partial (f bh : Nat) (hf : s.fl f = .ret bh true) (hns : s.skipped = false) : bh ≤ s.covered := by
  have := (reachable_inv as s h).f f
  unfold FInv at this; rw [hf] at this
  rcases this rfl with hc | hc
  · exact hc
  · rw [hns] at hc; cases hc

omit h

/-- the full statement is false of the code when the export timeout fires before the collect thread has looked at the
    cancel flag: the cycle skips `Export`, still publishes the ticket, and `ForceFlush` returns true with nothing
    exported (D17; a slow *collection*, not a slow exporter — outside C02's stated fault model, kept as a witness) -/
def d17 : List Act :=
  [.record, .fStep 0 0 false, .fStep 0 0 false,               -- one measurement; ForceFlush begins, takes ticket 1
   .wStep false, .wStep false, .wStep true,                   -- cycle: ticket 1, spawn, the export timeout fires
   .cStep, .cStep,                                            -- Produce, then the cancel flag is seen: Export skipped
   .wStep false, .wStep false, .wStep false,                  -- join, reload notified, CAS publishes ticket 1
   .fStep 0 0 false, .fStep 0 2 false, .fStep 0 0 true,       -- the caller observes, exporter ForceFlush ok
   .fStep 0 0 false, .fStep 0 1 false]                        -- final load of notified = 1, returns true
theorem reader_flush_complete_witness :
    (run init d17).map (fun s => (s.fl 0, s.covered, s.skipped)) = some (.ret 1 true, 0, true) := by decide

/-- a `ForceFlush` that returns true went through the exporter's own `ForceFlush`, which reported success -/
theorem reader_flush_true_needs_exporter_flush (s s' : St) (f c : Nat) (x : Bool) (bh : Nat)
    (hs : step s (.fStep f c x) = some s') (hnot : ∀ b, s.fl f ≠ .ret b true) (hret : s'.fl f = .ret bh true) :
    ∃ cur seen, s.fl f = .after bh cur true seen := by
  simp only [step, fStep] at hs
  cases hpc : s.fl f with
  | after b cur ok seen =>
    rw [hpc] at hs; simp only at hs
    split at hs
    · cases hs; simp at hret
    · split at hs
      · cases hs; simp at hret
      · rename_i hok
        split at hs
        · cases hs
          simp at hret
          have : ok = true := by cases ok <;> simp_all
          subst this
          exact ⟨cur, _, by rw [hret.1]⟩
        · cases hs
  | ret b ok => rw [hpc] at hs; cases hs
  | _ => rw [hpc] at hs; simp only at hs; (repeat' split at hs) <;> (cases hs; simp at hret)

/-! ## Non-vacuity: a complete flush -/
def demo : List Act :=
  [.record, .fStep 0 0 false, .fStep 0 0 false, .wStep false, .wStep false, .cStep, .cStep, .cStep, .cStep,
   .wStep false, .wStep false, .wStep false, .wStep false,
   .fStep 0 0 false, .fStep 0 2 false, .fStep 0 0 true, .fStep 0 0 false, .fStep 0 1 false]
example : (run init demo).map (fun s => (s.fl 0, s.covered, s.skipped, s.inExport)) = some (.ret 1 true, 1, false, 0) := by decide

end Otel.C02Reader
