import OtelVerif.Lemmas.AttrSet
import OtelVerif.Lemmas.SeriesStore
import OtelVerif.Lemmas.SeriesKey
import OtelVerif.Lemmas.SeriesNodup
/-! # C08 — metric series are keyed by attribute-set value; filters and limits lose nothing

Declarative side, written from the property text:
* an attribute set *as a key-to-value map*: `lastWrite kvs k` — the value the caller listed last for `k`
  ("duplicates resolved last-wins"); "after the view's filter removed the keys it does not allow": only keys with
  `isPresent k` count;
* "contribute to the same series": the table entry (`seriesOf`) a measurement is aggregated into;
* "the number of series reported stays within the limit": length of every collect output;
* "the total over all reported series equals everything recorded, for delta and cumulative readers":
  `Otel.Series.specTotals` (per reader: everything since its previous collect / everything so far).
The models (`Otel.Attr`, `Otel.Series`) mirror the C++ with fixes D10a, D10b, D10c, D11 applied. -/
namespace Otel.C08
open Otel Otel.Attr Otel.Series

/-! ## keys: order, canonical form, last write wins -/

theorem bytesLt_irrefl (a : Bytes) : bytesLt a a = false := Attr.bytesLt_irrefl a
theorem bytesLt_trans {a b c : Bytes} : bytesLt a b = true → bytesLt b c = true → bytesLt a c = true := Attr.bytesLt_trans
theorem bytesLt_trichotomy (a b : Bytes) : bytesLt a b = true ∨ a = b ∨ bytesLt b a = true := Attr.bytesLt_trichotomy a b

/-- the stored map iterates in strictly increasing key order, whatever order the caller used -/
theorem canon_sorted (kvs : List KV) : SortedKV (canon kvs) :=
  canon_sorted_aux kvs [] List.Pairwise.nil

/-- the stored map *is* the caller's list read as a key-to-value map with last write wins -/
theorem canon_lookup (kvs : List KV) (k : Bytes) : lookupKV k (canon kvs) = lastWrite kvs k := by
  unfold canon
  rw [canon_lookup_aux]
  cases lastWrite kvs k <;> simp [lookupKV]

/-- two listings give the same stored key **iff** they are equal as key-to-value maps -/
theorem canon_eq_iff (a b : List KV) : canon a = canon b ↔ ∀ k, lastWrite a k = lastWrite b k := by
  constructor
  · intro h k; rw [← canon_lookup, ← canon_lookup, h]
  · intro h
    apply sorted_ext (canon_sorted a) (canon_sorted b)
    intro k; rw [canon_lookup, canon_lookup, h]

/-- the order in which the caller lists (distinct) keys makes no difference -/
theorem canon_perm {a b : List KV} (hp : a.Perm b) (hn : (a.map (·.1)).Nodup) : canon a = canon b := by
  rw [canon_eq_iff]
  intro k
  have hn' : (b.map (·.1)).Nodup := (hp.map _).nodup_iff.mp hn
  apply Option.ext
  intro v
  rw [lastWrite_eq_some_iff_mem hn, lastWrite_eq_some_iff_mem hn']
  exact hp.mem_iff

example : canon [([97], .i64 1), ([98], .str [104, 105])] = canon [([98], .str [104, 105]), ([97], .i64 1)] := by decide

/-- drop every pair whose key is written again later -/
def dedupLast : List KV → List KV
  | [] => []
  | e :: rest => if rest.any (fun x => x.1 = e.1) then dedupLast rest else e :: dedupLast rest

theorem lastWrite_dedupLast (kvs : List KV) (k : Bytes) : lastWrite (dedupLast kvs) k = lastWrite kvs k := by
  induction kvs with
  | nil => rfl
  | cons e rest ih =>
    unfold dedupLast
    by_cases h : rest.any (fun x => x.1 = e.1) = true
    · rw [if_pos h, ih]
      simp only [lastWrite]
      cases hr : lastWrite rest k with
      | some v => rfl
      | none =>
        by_cases hk : e.1 = k
        · exfalso
          obtain ⟨x, hx, hxe⟩ := List.any_eq_true.mp h
          have := lastWrite_isSome_of_mem_key (kvs := rest) (k := k) ⟨x, hx, by simpa [hk] using hxe⟩
          rw [hr] at this; exact absurd this (by simp)
        · simp [hk]
    · rw [if_neg h]
      simp only [lastWrite, ih]

/-- duplicates are resolved last-wins: a listing and its duplicate-resolved form give the same key … -/
theorem canon_dedup (kvs : List KV) : canon (dedupLast kvs) = canon kvs := by
  rw [canon_eq_iff]; exact lastWrite_dedupLast kvs

/-- … and the duplicate-resolved form has pairwise distinct keys (so `canon_perm` applies to it) -/
theorem dedupLast_nodup (kvs : List KV) : ((dedupLast kvs).map (·.1)).Nodup := by
  induction kvs with
  | nil => simp [dedupLast]
  | cons e rest ih =>
    unfold dedupLast
    by_cases h : rest.any (fun x => x.1 = e.1) = true
    · rw [if_pos h]; exact ih
    · rw [if_neg h, List.map_cons, List.nodup_cons]
      refine ⟨?_, ih⟩
      intro hm
      obtain ⟨x, hx, hxe⟩ := List.mem_map.mp hm
      -- x is in dedupLast rest, hence in rest
      have hsub : ∀ (l : List KV) (y : KV), y ∈ dedupLast l → y ∈ l := by
        intro l
        induction l with
        | nil => intro y hy; simp [dedupLast] at hy
        | cons z l ihl =>
          intro y hy
          unfold dedupLast at hy
          split at hy
          · exact List.mem_cons_of_mem _ (ihl y hy)
          · rcases List.mem_cons.mp hy with rfl | hy
            · exact List.mem_cons_self ..
            · exact List.mem_cons_of_mem _ (ihl y hy)
      exact h (List.any_eq_true.mpr ⟨x, hsub rest x hx, by simpa using hxe⟩)

example : canon [([97], .i64 9), ([98], .i64 2), ([97], .i64 1)] = canon [([98], .i64 2), ([97], .i64 1)] := by decide

/-! ## the view's attribute filter -/

/-- the allow-list is consulted with the key's own bytes, NUL bytes and all (fix D11) -/
theorem filter_looks_up_by_value :
    Gen.filterLooksUpByValue = true ∧ ∀ (ks : List Bytes) (k : Bytes), (Filter.allow ks).isPresent k = true ↔ k ∈ ks := by
  refine ⟨by decide, fun ks k => ?_⟩
  simp [Filter.isPresent]

theorem keyOf_aux (f : Filter) (kvs : List KV) : ∀ m,
    kvs.foldl (fun m e => if f.isPresent e.1 then insertKV e.1 e.2 m else m) m =
      (kvs.filter fun e => f.isPresent e.1).foldl (fun m e => insertKV e.1 e.2 m) m := by
  induction kvs with
  | nil => intro m; rfl
  | cons e rest ih =>
    intro m
    by_cases h : f.isPresent e.1 = true
    · simp [List.filter_cons, h, ih]
    · simp [List.filter_cons, h, ih]

/-- the key of a measurement is the canonical form of the allowed pairs -/
theorem keyOf_eq_canon_filter (f : Filter) (kvs : List KV) : keyOf f kvs = canon (kvs.filter fun e => f.isPresent e.1) :=
  keyOf_aux f kvs []

theorem lastWrite_filter (p : Bytes → Bool) (kvs : List KV) (k : Bytes) :
    lastWrite (kvs.filter fun e => p e.1) k = if p k = true then lastWrite kvs k else none := by
  induction kvs with
  | nil => simp [lastWrite]
  | cons e rest ih =>
    by_cases hp : p e.1 = true
    · rw [List.filter_cons, if_pos hp]
      simp only [lastWrite, ih]
      by_cases hk : p k = true
      · simp [hk]
      · have : ¬ e.1 = k := fun h => hk (h ▸ hp)
        simp [hk, this]
    · rw [List.filter_cons, if_neg hp, ih]
      by_cases hk : p k = true
      · have : ¬ e.1 = k := fun h => hp (h ▸ hk)
        simp only [hk, if_true, lastWrite, this, if_false]
        cases lastWrite rest k <;> rfl
      · simp [hk]

/-- as a map, the key holds exactly the allowed keys with their last-written values -/
theorem keyOf_lookup (f : Filter) (kvs : List KV) (k : Bytes) :
    lookupKV k (keyOf f kvs) = if f.isPresent k = true then lastWrite kvs k else none := by
  rw [keyOf_eq_canon_filter, canon_lookup, lastWrite_filter]

/-- **series identity on the key level**: two measurements have the same key iff their attribute sets, restricted to
    the keys the filter allows, are equal as key-to-value maps -/
theorem same_key_iff (f : Filter) (a b : List KV) :
    keyOf f a = keyOf f b ↔ ∀ k, f.isPresent k = true → lastWrite a k = lastWrite b k := by
  rw [keyOf_eq_canon_filter, keyOf_eq_canon_filter, canon_eq_iff]
  constructor
  · intro h k hk
    have := h k
    rw [lastWrite_filter, lastWrite_filter, if_pos hk, if_pos hk] at this
    exact this
  · intro h k
    rw [lastWrite_filter, lastWrite_filter]
    by_cases hk : f.isPresent k = true
    · rw [if_pos hk, if_pos hk]; exact h k hk
    · rw [if_neg hk, if_neg hk]

example : keyOf (.allow [[97]]) [([97], .i64 1), ([98], .i64 7)] = keyOf (.allow [[97]]) [([98], .i64 8), ([97], .i64 1)] := by decide

/-- equal sets hash equally: the hash is a function of the stored (sorted) map only — for any `std::hash` -/
theorem hash_of_equal_sets_equal (hk : Bytes → Nat) (hv : Value → Nat → Nat) (f : Filter) (a b : List KV)
    (h : ∀ k, f.isPresent k = true → lastWrite a k = lastWrite b k) :
    hashOf hk hv (keyOf f a) = hashOf hk hv (keyOf f b) := by
  rw [(same_key_iff f a b).mpr h]

/-! ## series identity in the table -/

section table
variable {A V : Type}

/-- the table entry a measurement with key `k` is aggregated into (`GetOrSetDefault`) -/
def seriesOf (t : Table (List KV) A) (k : List KV) (d : A) : List KV := (t.resolve overflowKey k d).2

theorem seriesOf_self {t : Table (List KV) A} {k : List KV} (d : A) (h : t.has k = true ∨ t.isOverflow = false) :
    seriesOf t k d = k := by
  unfold seriesOf Table.resolve
  by_cases h1 : t.has k = true
  · rw [if_pos h1]
  · rw [if_neg h1]
    rcases h with h | h
    · exact absurd h h1
    · rw [if_neg (by simp [h])]

/-- beyond the limit every new attribute set goes to the single `otel.metrics.overflow=true` series -/
theorem overflow_folds_into_one_series {t : Table (List KV) A} {k : List KV} (d : A) (h1 : t.has k = false)
    (h2 : t.isOverflow = true) : seriesOf t k d = overflowKey := by
  unfold seriesOf Table.resolve
  rw [if_neg (by simp [h1]), if_pos h2]
  split <;> rfl

theorem size_resolve_le (t : Table (List KV) A) (k : List KV) (d : A) : (t.resolve overflowKey k d).1.size ≤ t.size + 1 := by
  unfold Table.resolve Table.size
  split
  · simp
  · split
    · split
      · simp
      · simp
    · simp

theorem size_record_le (ag : Agg V A) (t : Table (List KV) A) (k : List KV) (v : V) :
    (t.record ag overflowKey k v).size ≤ t.size + 1 := by
  unfold Table.record
  simp only [Table.size, length_updKey]
  exact size_resolve_le t k ag.new

/-- **two measurements contribute to the same series exactly when their attribute sets, after the view's filter, are
    equal as key-to-value maps** (while the table is below its limit; at the limit see
    `overflow_folds_into_one_series`) -/
theorem same_series_iff (ag : Agg V A) (f : Filter) (t : Table (List KV) A) (a b : List KV) (v : V)
    (hroom : t.size + 2 < t.limit) :
    seriesOf (t.record ag overflowKey (keyOf f a) v) (keyOf f b) ag.new = seriesOf t (keyOf f a) ag.new ↔
      ∀ k, f.isPresent k = true → lastWrite a k = lastWrite b k := by
  have h1 : t.isOverflow = false := by
    unfold Table.isOverflow; simp only [decide_eq_false_iff_not, not_le]; unfold Table.size at hroom; omega
  have h2 : (t.record ag overflowKey (keyOf f a) v).isOverflow = false := by
    have := size_record_le ag t (keyOf f a) v
    unfold Table.isOverflow; simp only [decide_eq_false_iff_not, not_le]
    rw [Table.record_limit]; unfold Table.size at this hroom; omega
  rw [seriesOf_self _ (Or.inr h1), seriesOf_self _ (Or.inr h2), ← same_key_iff]
  exact eq_comm

example : (Table.empty 2000 : Table (List KV) Int).size + 2 < (Table.empty 2000 : Table (List KV) Int).limit := by decide

end table

/-! ## one series per attribute set -/

/-- in every collect output of every history, for every reader, each attribute set (key) occurs at most once -/
theorem one_series_per_attribute_set {K A V : Type} [DecidableEq K] (c : Cfg K A V) (ops : List (Op K V)) (r : Nat)
    (o : List (K × A)) (h : (r, some o) ∈ (Store.run c (Store.init c) ops).2) : (o.map (·.1)).Nodup :=
  run_nodup c ops (Store.init c) (by simp [KeysNodup, Store.init, Table.empty]) r o h

/-! ## the cardinality limit -/

/-- **for every history, every reader and every collection cycle the number of reported series is within the
    configured limit** (a limit of 0 behaves like 1: everything is folded into the overflow series) -/
theorem series_le_limit {K A V : Type} [DecidableEq K] (c : Cfg K A V) (ops : List (Op K V)) (r : Nat) (o : List (K × A))
    (h : (r, some o) ∈ (Store.run c (Store.init c) ops).2) : o.length ≤ max c.limit 1 :=
  run_series_le_limit c ops (Store.init c) rfl (Table.inv_empty _ _) r o h

/-- … in particular within the limit itself for every limit ≥ 1 (limits 1–8, the default 2000, …) -/
theorem series_le_limit_pos {K A V : Type} [DecidableEq K] (c : Cfg K A V) (hl : 1 ≤ c.limit) (ops : List (Op K V)) (r : Nat)
    (o : List (K × A)) (h : (r, some o) ∈ (Store.run c (Store.init c) ops).2) : o.length ≤ c.limit := by
  have := series_le_limit c ops r o h
  omega

theorem table_inv_record {K A V : Type} [DecidableEq K] (ag : Agg V A) {ovf : K} {t : Table K A} (hi : t.Inv ovf) (k : K) (v : V) :
    (t.record ag ovf k v).Inv ovf ∧ (t.record ag ovf k v).size ≤ max t.limit 1 := by
  have := Table.inv_record ag hi k v
  refine ⟨this, ?_⟩
  have h := this.size_le
  rwa [Table.record_limit] at h

theorem table_inv_mergeEntry {K A V : Type} [DecidableEq K] (ag : Agg V A) {ovf : K} {t : Table K A} (hi : t.Inv ovf) (e : K × A) :
    (t.mergeEntry ag ovf e).Inv ovf ∧ (t.mergeEntry ag ovf e).size ≤ max t.limit 1 := by
  have := Table.inv_mergeEntry ag hi e
  refine ⟨this, ?_⟩
  have h := this.size_le
  rwa [Table.mergeEntry_limit] at h

/-- the tables are (re-)created with the configured limit (fixes D10a, D10b) and folding merges (fix D10c): the source
    still has the shape the model mirrors -/
theorem limits_are_kept : Gen.collectKeepsLimit = true ∧ Gen.mergedUsesLimit = true ∧ Gen.mergeFoldsIntoOverflow = true := by decide

theorem default_limit : Gen.kAggregationCardinalityLimit = 2000 := by decide

/-- the overflow series is `otel.metrics.overflow = true` -/
theorem overflow_key : overflowKey = [("otel.metrics.overflow".toUTF8.toList, Value.bool true)] := by decide +kernel

/-! ## nothing is lost -/

theorem total_record {K A V M : Type} [DecidableEq K] [AddCommMonoid M] {ag : Agg V A} (ms : Measure ag M) (ovf : K)
    (t : Table K A) (k : K) (v : V) : tot ms.μ (t.record ag ovf k v).entries = tot ms.μ t.entries + ms.w v :=
  Table.tot_record ms ovf t k v

theorem total_mergeEntry {K A V M : Type} [DecidableEq K] [AddCommMonoid M] {ag : Agg V A} (ms : Measure ag M) (ovf : K)
    (t : Table K A) (e : K × A) : tot ms.μ (t.mergeEntry ag ovf e).entries = tot ms.μ t.entries + ms.μ e.2 :=
  Table.tot_mergeEntry ms ovf t e

theorem total_mergeTables {K A V M : Type} [DecidableEq K] [AddCommMonoid M] (c : Cfg K A V) (ms : Measure c.ag M)
    (hiter : ∀ l, (c.iter l).Perm l) (ts : List (Table K A)) (m : Table K A) :
    tot ms.μ (mergeTables c m ts).entries = tot ms.μ m.entries + tablesTotal ms.μ ts :=
  tot_mergeTables c ms hiter ts m

/-- **the total over all reported series equals everything recorded, for delta and cumulative readers alike**:
    for every configuration (limit, readers, enumeration order of the hash tables), every additive measure of the
    aggregation and every history, the totals handed to the readers are exactly `specTotals` — per delta reader
    everything recorded since its previous collect, per cumulative reader everything recorded so far — no matter how
    many attribute sets were folded into the overflow series. -/
theorem overflow_conserves_total {K A V M : Type} [DecidableEq K] [AddCommMonoid M] (c : Cfg K A V) (ms : Measure c.ag M)
    (hiter : ∀ l, (c.iter l).Perm l) (ops : List (Op K V)) (hops : ∀ r, Op.collect r ∈ ops → r < c.temps.length) :
    ((Store.run c (Store.init c) ops).2.map fun o => (o.1, outTotal ms.μ o.2)) = specTotals c (fun _ => ms.w) (fun _ => 0) 0 ops :=
  run_totals c ms hiter ops (Store.init c) (fun _ => 0) 0 (sinv_init c ms) hops

/-- the measure of a long counter: its value -/
def counterMeasure : Measure sumAgg Int :=
  { μ := id, w := id, new := rfl, add := fun _ _ => rfl, merge := fun _ _ => rfl }

/-- instance for a long counter keyed by attribute sets, any limit, any readers: Σ reported values = Σ recorded values -/
theorem overflow_conserves_total_counter (limit : Nat) (temps : List Temporality) (iter : List (List KV × Int) → List (List KV × Int))
    (hiter : ∀ l, (iter l).Perm l) (ops : List (Op (List KV) Int)) (hops : ∀ r, Op.collect r ∈ ops → r < temps.length) :
    let c : Cfg (List KV) Int Int := { ag := sumAgg, ovf := overflowKey, limit := limit, temps := temps, iter := iter }
    ((Store.run c (Store.init c) ops).2.map fun o => (o.1, outTotal (fun x : Int => x) o.2)) = specTotals c (fun _ (v : Int) => v) (fun _ => 0) 0 ops := by
  intro c
  exact overflow_conserves_total c counterMeasure hiter ops hops

/-! ## each series carries exactly the measurements of its attribute set (below the limit) -/

/-- **series identity over whole histories**: as long as the history has fewer measurements than the limit leaves
    room for (so nothing is folded), the series of key `k0` handed to a reader carries exactly the measurements whose
    key is `k0` — those of the reader's interval for a delta reader, all so far for a cumulative reader — for every
    number of readers and collection cycles and every enumeration order of the hash tables. -/
theorem series_exact_below_limit {K A V M : Type} [DecidableEq K] [AddCommMonoid M] (c : Cfg K A V) (ms : Measure c.ag M)
    (hiter : ∀ l, (c.iter l).Perm l) (ops : List (Op K V)) (hops : ∀ r, Op.collect r ∈ ops → r < c.temps.length)
    (hroom : recordCount ops + 1 < c.limit) (k0 : K) :
    ((Store.run c (Store.init c) ops).2.map fun o => (o.1, outKey k0 ms.μ o.2)) =
      specTotals c (fun k v => if k = k0 then ms.w v else 0) (fun _ => 0) 0 ops :=
  run_key_totals k0 c ms hiter ops (Store.init c) (fun _ => 0) 0 0 (sinvK_init k0 c ms) (by omega) hops

/-- for a long counter whose measurements carry attribute lists `a` under the view filter `f`: the series of the
    attribute list `a0` sums exactly the measurements whose attribute set equals `a0`'s as a key-to-value map after
    filtering (`same_key_iff`) -/
theorem series_exact_counter (f : Filter) (limit : Nat) (temps : List Temporality)
    (iter : List (List KV × Int) → List (List KV × Int)) (hiter : ∀ l, (iter l).Perm l)
    (a0 : List KV) :
    let c : Cfg (List KV) Int Int := { ag := sumAgg, ovf := overflowKey, limit := limit, temps := temps, iter := iter }
    ∀ ops : List (Op (List KV) Int), (∀ r, Op.collect r ∈ ops → r < temps.length) → recordCount ops + 1 < limit →
    ((Store.run c (Store.init c) ops).2.map fun o => (o.1, outKey (keyOf f a0) (fun x : Int => x) o.2)) =
      specTotals c (fun k (v : Int) => if k = keyOf f a0 then v else 0) (fun _ => 0) 0 ops := by
  intro c ops hops hroom
  exact series_exact_below_limit c counterMeasure hiter ops hops hroom (keyOf f a0)

/-- the D10 history in the model: 3 × 3 new attribute sets under limit 2, cumulative reader — totals 3, 6, 9 -/
example :
    let c : Cfg (List KV) Int Int := { ag := sumAgg, ovf := overflowKey, limit := 2, temps := [.cumulative], iter := id }
    let k := fun (i : Int) => keyOf .all [([107], .i64 i)]
    let ops : List (Op (List KV) Int) :=
      [.record (k 0) 1, .record (k 1) 1, .record (k 2) 1, .collect 0, .record (k 3) 1, .record (k 4) 1, .record (k 5) 1, .collect 0,
       .record (k 6) 1, .record (k 7) 1, .record (k 8) 1, .collect 0]
    ((Store.run c (Store.init c) ops).2.map fun o => (outTotal (fun x : Int => x) o.2, (o.2.getD []).length)) = [(3, 2), (6, 2), (9, 2)] := by
  decide +kernel

end Otel.C08
