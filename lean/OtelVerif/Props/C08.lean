import OtelVerif.Model.AttrSet
import OtelVerif.Model.SeriesStore
namespace Otel.C08
end Otel.C08
