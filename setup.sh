#!/bin/sh
# Offline setup: build the Lean library, all property theorems, the model driver; warm the harness cache.
set -e
cd "$(dirname "$0")"
python3 tools/extract.py "${VERIF_REPO:-/repo}" || true
(cd lean && lake build)
python3 - <<'PY'
import glob, importlib, os, sys
sys.path.insert(0, os.getcwd())
import vcore
seen = set()
for f in sorted(glob.glob('props/c*.py')):
    P = importlib.import_module('props.' + os.path.basename(f)[:-3])
    for h in P.HARNESSES:
        if h.name not in seen:
            seen.add(h.name)
            try:
                vcore.build_harness(h)
            except vcore.BuildError as e:
                print('setup: harness', h.name, 'failed to build:', str(e)[-500:])
PY
